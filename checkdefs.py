"""Per-property check definitions: which lanes run, with what bounds, what must be observed."""

SIM = "minichain simulator (CosmWasm 1.x dispatch/reply/rollback, bank, token-factory, ICS-20, ibc-hooks, native ledger) written from module documentation is the trusted base"
HONEST = "admin is honest in conservation workloads: resume = identity or re-base of the staked total; forced recovery names only refundable packets; staked-asset denom and channel are not changed while value is in flight"
ZERO = "zero-amount bank sends / transfers are accepted as no-ops by the simulator"


def hist(props, qh=12, qs=250, ts=1500, extra=None):
    def mk(tier, seed, i, n, budget):
        a = ["hist", "--props", props, "--seed", str(seed), "--shard", str(i)]
        if tier == "quick":
            a += ["--histories", str(qh), "--steps", str(qs)]
        else:
            a += ["--budget-s", str(budget), "--steps", str(ts)]
        return a + (extra or [])
    return mk


def lane(name, q, t, per_budget=False):
    """q / t: dict of extra args for quick / thorough"""
    def mk(tier, seed, i, n, budget):
        a = ["lane", name, "--seed", str(seed), "--shard", str(i), "--nshards", str(n), "--tier", tier]
        d = q if tier == "quick" else t
        for k, v in d.items():
            a += [f"--{k}", str(v)]
        if tier != "quick":
            a += ["--budget-s", str(budget)]
        return a
    return mk


HRULE = ("random configuration + directed prologue + state-aware random operations (users, operator bot and impostors, relayer with all IBC outcomes, "
         "stray acks, injected submission failures, admin/config changes, clock jumps to deadlines -1/0/+1); a case = one monitored transaction; distinct = "
         "distinct (operation kind, outcome, abstract state) triples on which this property's monitor evaluated a non-vacuous assertion")

CHECKS = {
    "C01": {
        "level": "exploration", "builds": ["default", "miniwasm"], "all_lanes_both": True,
        "lanes": [("hist", hist("C01"))],
        "rule": HRULE + "; abstract state = rate regime x batch-status counts x packet-status counts x stopped/treasury/oracle",
        "require": ["op:liquid_stake:ok", "op:hook:receive_rewards:ok", "op:submit_batch:ok", "op:relay:ack:ok", "op:relay:err:ok", "op:relay:timeout:ok", "op:recover_pending_ibc_transfers:ok", "op:resume_contract:ok"],
        "assumptions": [SIM, HONEST, ZERO],
    },
    "C02": {
        "level": "exploration", "lanes": [("hist", hist("C02"))],
        "rule": HRULE,
        "require": ["op:withdraw:ok", "op:fee_withdraw:ok", "op:hook:receive_unstaked_tokens:ok", "op:recover_pending_ibc_transfers:ok", "op:relay:err:ok", "op:relay:timeout:ok"],
        "assumptions": [SIM, HONEST, ZERO, "fees swept from ownerless stake are not backed by contract-held tokens and are excluded from the fee entitlement"],
    },
    "C03": {
        "level": "exploration", "builds": ["default", "miniwasm"], "all_lanes_both": True,
        "lanes": [("hist", hist("C03"))],
        "rule": HRULE + "; stakes are additionally keyed by (rate regime, destination chain, equal-prefix configuration)",
        "require": ["stake_native:above", "stake_native:below", "stake_native:par", "stake_proto:above", "stake_proto:below", "stake_proto:par", "op:submit_batch:ok"],
        "assumptions": [SIM, HONEST],
    },
    "C05": {
        "level": "exploration", "lanes": [("hist", hist("C05"))],
        "rule": HRULE + "; withdrawals keyed by (delivery short/exact/long, requesters in batch)",
        "require": ["op:withdraw:ok", "withdraw_refused_no_claim", "unstake_request"],
        "assumptions": [SIM, "batch total equals the sum of requests ever made (a request is deleted when paid)"],
    },
    "C06": {
        "level": "exploration", "lanes": [("hist", hist("C06"))],
        "rule": HRULE + "; submissions keyed by (clock relative to due time in {<-1,-1,0,+1,>+1}, non-empty, stopped, outcome), receipts by clock relative to the unbonding end",
        "require": ["op:submit_batch:ok", "op:submit_batch:fail", "op:hook:receive_unstaked_tokens:ok", "op:hook:receive_unstaked_tokens:fail"],
        "assumptions": [SIM],
    },
    "C07": {
        "level": "exploration", "lanes": [("hist", hist("C07"))],
        "rule": HRULE + "; packet-level history: relay outcomes, recoveries keyed by (forced, paginated, receiver-directed, packets consumed, denom), stray acks, submission faults",
        "require": ["op:relay:ack:ok", "op:relay:err:ok", "op:relay:timeout:ok", "op:recover_pending_ibc_transfers:ok", "op:sudo:ok"],
        "assumptions": [SIM, HONEST, "a packet receives exactly one of ack / timeout"],
    },
    "C11": {
        "level": "exploration", "lanes": [("hist", hist("C11"))],
        "rule": HRULE + "; rewards keyed by (fee rate, treasury configured, outcome, LST exists), fee withdrawals by (outcome, treasury, amount below/at/above accrued)",
        "require": ["op:hook:receive_rewards:ok", "op:hook:receive_rewards:fail", "op:fee_withdraw:ok", "op:fee_withdraw:fail"],
        "assumptions": [SIM, ZERO],
    },
    "C15": {
        "level": "exploration", "lanes": [("hist", hist("C15"))],
        "rule": HRULE + "; oracle posts keyed by (operation, rate regime before, rate regime after), with and without an oracle",
        "require": ["op:liquid_stake:ok", "op:submit_batch:ok", "op:hook:receive_rewards:ok", "op:resume_contract:ok"],
        "assumptions": [SIM],
    },
    "C04": {
        "level": "exploration",
        "lanes": [("arith", lane("c04", {"cases": 60000}, {})), ("hist", hist("C04", qh=6))],
        "rule": "arith lane: (N, L, x) triples from boundary generators (powers of two +-1, k*N/L +-1, all-ones, 10^k, tiny/huge mixes, random 128-bit) driven through ResumeContract + LiquidStake or LiquidUnstake + SubmitBatch on the real contract and compared with the harness's own 256-bit floor; unrepresentable results are skipped; distinct = (outcome class, direction, byte-length classes of N, L, x). hist lane: the same assertions on every stake / submit of random histories",
        "require": ["c04:stake-ok", "c04:submit-ok", "c04:stake-refused", "op:liquid_stake:ok", "op:submit_batch:ok"],
        "assumptions": [SIM, "triples whose exact result or new totals do not fit 128 bits are excluded, as the property states"],
    },
    "C16": {
        "level": "exploration",
        "lanes": [("hostile", hist("C16", qh=24, qs=40, ts=60, extra=["--hostile", "400", "--extreme", "1"]))],
        "rule": "random (every second one extreme-but-accepted) configuration + directed prologue + random history interleaved with hostile messages to every entry point of both contracts (valid, unauthorized, mutated JSON, unknown ids, amounts 0..10^27, every principal incl. contracts and hook accounts, Reply with arbitrary id/data, acks for any sequence, all MigrateMsg variants under every stored version, instantiate with extreme values); every call under catch_unwind with overflow checks on; a panic counts when the state before and the would-be state after have a rate inside [1e-3, 1e3]; distinct = (message kind, outcome, abstract state)",
        "require": ["op:probe:execute:ok", "op:probe:execute:fail", "op:probe:query:ok", "op:probe:reply:fail", "op:probe:migrate:fail", "op:probe:instantiate:ok", "op:probe:sudo:ok"],
        "assumptions": [SIM, "simulated block time stays below the year 2286", "panics in states whose exchange rate is outside [1e-3, 1e3] are counted but not reported (outside the property's bounds)"],
    },
}
