"""Per-property check definitions: which lanes run, with what bounds, what must be observed."""

SIM = "minichain simulator (CosmWasm 1.x dispatch/reply/rollback, bank, token-factory, ICS-20, ibc-hooks, native ledger) written from module documentation is the trusted base"
HONEST = "admin is honest in conservation workloads: resume = identity or re-base of the staked total; forced recovery names only refundable packets; staked-asset denom and channel are not changed while value is in flight"
ZERO = "zero-amount bank sends / transfers are accepted as no-ops by the simulator"


def hist(props, qh=48, qs=250, ts=1500, extra=None):
    def mk(tier, seed, i, n, budget):
        a = ["hist", "--props", props, "--seed", str(seed), "--shard", str(i)]
        if tier == "quick":
            a += ["--histories", str(qh), "--steps", str(qs)]
        else:
            a += ["--budget-s", str(budget), "--steps", str(ts)]
        return a + (extra or [])
    return mk


def lane(name, q, t, per_budget=False):
    """q / t: dict of extra args for quick / thorough"""
    def mk(tier, seed, i, n, budget):
        a = ["lane", name, "--seed", str(seed), "--shard", str(i), "--nshards", str(n), "--tier", tier]
        d = q if tier == "quick" else t
        for k, v in d.items():
            a += [f"--{k}", str(v)]
        if tier != "quick":
            a += ["--budget-s", str(budget)]
        return a
    return mk


def SMALL(pid):
    return ("small", lane("smallscope", {"prop": pid, "depth": 6}, {"prop": pid, "depth": 7}))


SMALLRULE = ("; small lane: ALL sequences of applicable operations to depth 6 (thorough: 7) after a fixed first stake, over a 16-symbol state-dependent alphabet "
             "(two stakers, one staking to the native chain; partial/full unstake; submit at the due time; exact and short delivery at the unbonding end; withdrawals; "
             "reward; ack/error/timeout of the oldest or newest outstanding packet; default and receiver-directed recovery), two configurations, by DFS on clones with this property's monitor after every step")

HRULE = ("random configuration + directed prologue + state-aware random operations (users, operator bot and impostors, relayer with all IBC outcomes, "
         "stray acks, injected submission failures, admin/config changes, clock jumps to deadlines -1/0/+1); a case = one monitored transaction; distinct = "
         "distinct (operation kind, outcome, abstract state) triples on which this property's monitor evaluated a non-vacuous assertion")

CHECKS = {
    "C01": {
        "level": "exploration", "builds": ["default", "miniwasm"], "all_lanes_both": True,
        "lanes": [("hist", hist("C01")), SMALL("C01")],
        "rule": HRULE + "; abstract state = rate regime x batch-status counts x packet-status counts x stopped/treasury/oracle" + SMALLRULE,
        "require": ["smallscope:sequences", "op:liquid_stake:ok", "op:hook:receive_rewards:ok", "op:submit_batch:ok", "op:relay:ack:ok", "op:relay:err:ok", "op:relay:timeout:ok", "op:recover_pending_ibc_transfers:ok", "op:resume_contract:ok"],
        "assumptions": [SIM, HONEST, ZERO],
    },
    "C02": {
        "level": "exploration", "lanes": [("hist", hist("C02")), SMALL("C02")],
        "rule": HRULE + SMALLRULE,
        "require": ["smallscope:sequences", "op:withdraw:ok", "op:fee_withdraw:ok", "op:hook:receive_unstaked_tokens:ok", "op:recover_pending_ibc_transfers:ok", "op:relay:err:ok", "op:relay:timeout:ok"],
        "assumptions": [SIM, HONEST, ZERO, "fees swept from ownerless stake are not backed by contract-held tokens and are excluded from the fee entitlement", "when the staking contract is configured as its own treasury, the fees it pays to itself are held for that treasury and are booked like donations"],
    },
    "C03": {
        "level": "exploration", "builds": ["default", "miniwasm"], "all_lanes_both": True,
        "lanes": [("hist", hist("C03")), SMALL("C03")],
        "rule": HRULE + "; stakes are additionally keyed by (rate regime, destination chain, equal-prefix configuration)" + SMALLRULE,
        "require": ["smallscope:sequences", "stake_native:above", "stake_native:below", "stake_native:par", "stake_proto:above", "stake_proto:below", "stake_proto:par", "op:submit_batch:ok"],
        "assumptions": [SIM, HONEST],
    },
    "C05": {
        "level": "exploration",
        "lanes": [("perm", lane("c05perm", {"n": 6}, {"n": 8})), ("hist", hist("C05")), SMALL("C05")],
        "rule": "perm lane: batches of 1..n requesters built through LiquidUnstake (uneven shares, one repeated request), 6 delivery sizes (1, expected-1, expected, expected+1, 10x, 3), ALL n! withdrawal orders with interleaved noise (foreign and double withdrawals, a stake, a reward); every payout compared with floor(received*own/total) and across orders. hist lane: " + HRULE + "; withdrawals keyed by (delivery short/exact/long, requesters in batch)" + SMALLRULE,
        "require": ["smallscope:sequences", "op:withdraw:ok", "withdraw_refused_no_claim", "unstake_request", "c05perm:orders"],
        "assumptions": [SIM, "batch total equals the sum of requests ever made (a request is deleted when paid)"],
    },
    "C06": {
        "level": "exploration", "lanes": [("hist", hist("C06")), SMALL("C06")],
        "rule": HRULE + "; submissions keyed by (clock relative to due time in {<-1,-1,0,+1,>+1}, non-empty, stopped, outcome), receipts by clock relative to the unbonding end" + SMALLRULE,
        "require": ["smallscope:sequences", "op:submit_batch:ok", "op:submit_batch:fail", "op:hook:receive_unstaked_tokens:ok", "op:hook:receive_unstaked_tokens:fail"],
        "assumptions": [SIM],
    },
    "C07": {
        "level": "fault_enumeration", "exhaustive": True,
        "lanes": [("enum", lane("c07enum", {"k": 4}, {"k": 5})), ("hist", hist("C07")), SMALL("C07")],
        "rule": "enum lane (exhaustive for its bounded space): for every composition of up to k outstanding packets (two denoms; receivers staker / A / B / staker-with-both-denoms) ALL assignments of {success ack, error ack, timeout} x ALL delivery orders x {recovery or duplicate ack after each delivery} x 4 final recovery flavours (receiver-directed, paginated, default, admin-forced), by DFS on world clones with the packet-history monitors evaluated after every step and an end-state check (queue empty, nothing refundable left). hist lane: " + HRULE + "; relay outcomes, recoveries keyed by (forced, paginated, receiver-directed, packets consumed, denom), stray acks, injected submission failures" + SMALLRULE,
        "require": ["smallscope:sequences", "op:relay:ack:ok", "op:relay:err:ok", "op:relay:timeout:ok", "op:recover_pending_ibc_transfers:ok", "op:sudo:ok", "c07enum:leaves"],
        "assumptions": [SIM, HONEST, "a packet receives exactly one of ack / timeout"],
    },
    "C11": {
        "level": "exploration", "lanes": [("hist", hist("C11")), SMALL("C11")],
        "rule": HRULE + "; rewards keyed by (fee rate, treasury configured, outcome, LST exists), fee withdrawals by (outcome, treasury, amount below/at/above accrued)" + SMALLRULE,
        "require": ["smallscope:sequences", "op:hook:receive_rewards:ok", "op:hook:receive_rewards:fail", "op:fee_withdraw:ok", "op:fee_withdraw:fail"],
        "assumptions": [SIM, ZERO],
    },
    "C15": {
        "level": "exploration", "lanes": [("optional", lane("c15diff", {"histories": 12, "steps": 200}, {"histories": 100000000, "steps": 600})), ("hist", hist("C15")), SMALL("C15")],
        "rule": "optional lane: the same operation trace (prologue + random) is applied to two deployments that differ only in oracle_address (Some / None); outcome, totals, batches, queue, all ledgers and all effects other than the oracle call must agree step by step, and the oracle-less deployment must dispatch no contract call. hist lane: " + HRULE + "; oracle posts keyed by (operation, rate regime before, rate regime after), with and without an oracle" + SMALLRULE,
        "require": ["smallscope:sequences", "op:liquid_stake:ok", "op:submit_batch:ok", "op:hook:receive_rewards:ok", "op:resume_contract:ok", "c15diff:histories"],
        "assumptions": [SIM],
    },
    "C04": {
        "level": "exploration",
        "lanes": [("arith", lane("c04", {"cases": 60000}, {})), ("hist", hist("C04", qh=16))],
        "rule": "arith lane: (N, L, x) triples from boundary generators (powers of two +-1, k*N/L +-1, all-ones, 10^k, tiny/huge mixes, random 128-bit) driven through ResumeContract + LiquidStake or LiquidUnstake + SubmitBatch on the real contract and compared with the harness's own 256-bit floor; unrepresentable results are skipped; distinct = (outcome class, direction, byte-length classes of N, L, x). hist lane: the same assertions on every stake / submit of random histories",
        "require": ["c04:stake-ok", "c04:submit-ok", "c04:stake-refused", "op:liquid_stake:ok", "op:submit_batch:ok"],
        "assumptions": [SIM, "triples whose exact result or new totals do not fit 128 bits are excluded, as the property states"],
    },
    "C16": {
        "level": "exploration",
        "lanes": [("hostile", hist("C16", qh=40, qs=40, ts=60, extra=["--hostile", "400", "--extreme", "1"]))],
        "rule": "random (every second one extreme-but-accepted) configuration + directed prologue + random history interleaved with hostile messages to every entry point of both contracts (valid, unauthorized, mutated JSON, unknown ids, amounts 0..10^27, every principal incl. contracts and hook accounts, Reply with arbitrary id/data, acks for any sequence, all MigrateMsg variants under every stored version, instantiate with extreme values); every call under catch_unwind with overflow checks on; a panic counts when the state before and the would-be state after have a rate inside [1e-3, 1e3]; distinct = (message kind, outcome, abstract state)",
        "thorough_extra": "c16_valgrind",
        "require": ["op:probe:execute:ok", "op:probe:execute:fail", "op:probe:query:ok", "op:probe:reply:fail", "op:probe:migrate:fail", "op:probe:instantiate:ok", "op:probe:sudo:ok"],
        "assumptions": [SIM, "simulated block time stays below the year 2286", "panics in states whose exchange rate is outside [1e-3, 1e3] are counted but not reported (outside the property's bounds)"],
    },
    "C08": {
        "level": "exploration",
        "lanes": [("matrix", lane("c08", {"histories": 12, "steps": 120, "every": 12}, {"histories": 1000000, "steps": 400, "every": 10}))],
        "rule": "at sampled reachable states of random histories (incl. after ownership handover and monitor changes) the whole matrix (privileged message variant x principal) is executed on world clones with arguments that are valid for the rightful caller; unauthorised => must fail with the world unchanged; Withdraw is tried by every principal on every received batch; distinct = (variant, principal role, outcome, halted)",
        "require": ["c08:unauthorised_refused", "c08:rightful_ok:add_validator", "c08:rightful_ok:update_config", "c08:rightful_ok:transfer_ownership", "c08:rightful_ok:revoke_ownership_transfer", "c08:rightful_ok:resume_contract", "c08:rightful_ok:circuit_breaker", "c08:rightful_ok:accept_ownership", "c08:rightful_ok:receive_rewards", "c08:rightful_ok:receive_unstaked_tokens", "c08:rightful_ok:fee_withdraw", "c08:rightful_ok:recover_forced", "c08:handover"],
        "assumptions": [SIM, "a failed transaction is rolled back by the runtime (simulated), so 'nothing changes' is checked on the simulator state"],
    },
    "C09": {
        "level": "exploration",
        "lanes": [("derive", lane("c09", {"triples": 2500}, {"triples": 100000000}))],
        "rule": "random and adversarial (channel, native sender, protocol prefix) triples: a deployment is configured with them and ReceiveRewards / ReceiveUnstakedTokens are sent from the account computed by the harness's own SHA-256 + bech32 (must be accepted) and from 17 near-miss derivations (must be rejected); end-to-end through the simulator's ibc-hooks; accepted account follows collector / channel updates; pre-image and account injectivity over all generated pairs; distinct = (message, near-miss family, prefix length, channel length)",
        "require": ["c09:rewards:rightful_accepted", "c09:unstaked:rightful_accepted", "c09:rejected:single-hash", "c09:rejected:bech32m", "c09:rejected:channel+1", "c09:end_to_end", "c09:follows_channel_update"],
        "assumptions": [SIM, "absence of SHA-256 collisions is not observable; injectivity is checked on the pre-image string and on the pairs generated"],
    },
    "C10": {
        "level": "exploration",
        "lanes": [("breaker", lane("c10", {"histories": 20, "steps": 150, "every": 10}, {"histories": 1000000, "steps": 400, "every": 8}))],
        "rule": "at sampled reachable states: clone A is halted (by the admin or a monitor), clone B keeps running; each of the six value-moving messages is issued with arguments for which B succeeds and must fail on A without any effect; halting and resuming are compared query-by-query and by raw storage diff; distinct = (message, who tripped, rate regime)",
        "require": ["c10:halt_with_pending_owner", "c10:fresh_instance", "c10:halt_by_admin", "c10:halt_by_monitor", "c10:resume_checked", "c10:running_clone_succeeds:liquid_stake", "c10:running_clone_succeeds:liquid_unstake", "c10:running_clone_succeeds:submit_batch", "c10:running_clone_succeeds:receive_rewards", "c10:running_clone_succeeds:receive_unstaked_tokens"],
        "assumptions": [SIM],
    },
    "C12": {
        "level": "exploration", "exhaustive": True,
        "lanes": [("handover", lane("c12", {"depth": 4, "random": 1500, "alphabet": "full"}, {"depth": 5, "random": 5000, "alphabet": "full"})),
                  ("deep", lane("c12", {"depth": 3, "random": 0, "alphabet": "core"}, {"depth": 6, "random": 0, "alphabet": "core"}))],
        "rule": "full alphabet of 25 symbols ({initial admin, a, b, stranger} x {nominate a, nominate b, nominate self, revoke, accept} + wait 7d-1s / 1s / 7d + CircuitBreaker / ResumeContract by the current admin as noise on the staking contract); ALL sequences of length 4 (quick) / 5 (thorough) over it and ALL sequences of length 3 (quick) / 6 (thorough) over the 19-symbol core alphabet on both contracts by prefix-tree DFS on world clones, plus random sequences of length 6-40; every step's outcome is compared with a reference state machine, the admin identity is read back (treasury Config, admin-only probes, State.pending_owner) at every leaf and after every handover; distinct = (contract, admin, nominee, clock vs deadline) at leaves",
        "require": ["c12:sequences", "c12:handovers", "c12:accept_at_-1", "c12:accept_at_0", "c12:accept_at_1", "c12:random_sequences"],
        "assumptions": [SIM],
    },
    "C13": {
        "level": "exploration",
        "lanes": [("treasury", lane("c13", {"lists": 600}, {"lists": 100000000}))],
        "rule": "random allow-lists (0-6 routes, 1-4 hops) x candidate routes derived from them (exact, prefix, suffix, reversed, perturbed field, extended, concatenation, splice, empty, random) x {exact-in, exact-out} x end-point denom {matching, other end, unrelated} x {trader, other}; success must equal the harness's own predicate; the emitted message is decoded by the harness's wire reader and compared with the request and with its canonical re-encoding; SpendFunds / UpdateConfig by admin and non-admins to 8 receiver classes",
        "require": ["c13:exact", "c13:prefix", "c13:suffix", "c13:concatenation", "c13:spend:ibc:ok", "c13:spend:local:ok", "c13:spend:ibc:fail", "c13:spend:local:fail"],
        "assumptions": [SIM, "bech32m and upper-case receivers are accepted by the contract's bech32 decoder and are not counted as malformed"],
    },
    "C14": {
        "level": "exploration",
        "lanes": [("config", lane("c14", {"cases": 200}, {"cases": 100000000}))],
        "rule": "valid random configurations, then field-level corruption (13 fields x families: empty, case change, truncation, checksum damage, separator damage, whitespace, prefix swap, duplicates, malformed channels / denoms / sub-denoms) at instantiation and in UpdateConfig with every subset of sections; accepted => the supplied sections satisfy the harness's own well-formedness predicate; sections not supplied, the LST denom and the halted flag are identical before/after; AddValidator / RemoveValidator sequences change exactly the named element; distinct = (entry, field, family, outcome)",
        "require": ["c14:valid_accepted", "c14:corrupted_refused", "c14:update_accepted", "c14:update_refused", "c14:validator_add:ok", "c14:validator_add:fail", "c14:validator_remove:ok", "c14:validator_remove:fail"],
        "assumptions": [SIM, "lenient readings: upper-case addresses, case-variant duplicates, channel-+5, bech32m checksums and ibc/ + 64 bytes are not counted as malformed (DESIGN.md section 6)"],
    },
    "C17": {
        "level": "exploration",
        "lanes": [("paging", lane("c17", {"histories": 20, "steps": 150, "every": 10}, {"histories": 1000000, "steps": 500, "every": 8})), ("hist", hist("C17", qh=16))],
        "rule": "at sampled reachable states: Batches paged with limit in {none,0,1,2,3,n,n+1} x every status filter following the cursor, random (start_after, limit, status) triples, BatchesByIds with missing / duplicate / unsorted ids, IbcQueue paging, all compared with the unpaginated scan filtered by the harness and with the simulator's packet store; UnstakeRequests of every user compared with the reference model of open requests (also after every unstake / withdraw of the history lane)",
        "require": ["c17:states_probed", "c17:states_with_3_batches", "c17:deep_index_scenario", "op:liquid_unstake:ok", "op:withdraw:ok"],
        "assumptions": [SIM],
    },
    "C18": {
        "level": "exploration",
        "lanes": [("migrate", lane("c18", {"stores": 60}, {"stores": 100000000}))],
        "rule": "pre-upgrade stores synthesised by the harness: a random history on the current contract, then the packet and pending-reply maps rewritten into the 1.0.0 byte layout (written by the harness itself) with random packets in every status; after V1_0_0ToV1_1_0 every record is compared (key, sequence, amount, status, denom, receiver), every other raw key must be byte-identical, recovery and acks must work; hand-written 0.4.18 / 0.4.20 configs are translated field by field; gate matrix 10 stored versions x 4 names x 3 paths (+ treasury 8 x 3) => success iff name matches and version is the path's source, refused => storage identical; distinct = gate cells + legacy store shapes",
        "require": ["c18:v1_1_0_migrated", "c18:v0_4_20_migrated", "c18:v1_0_0_migrated", "c18:gate_accepted", "c18:gate_refused", "c18:post_migration_recovery", "c18:treasury_gate"],
        "assumptions": [SIM, "transaction atomicity of migrate is the host's (simulated all-or-nothing); crash points inside a migration are not observable at the contract boundary", "legacy layouts are those of cw-storage-plus Map<u64,_> / Item and serde-json-wasm (u128 as string); a self-check confirms the current contract writes the same key layout"],
    },
    "C19": {
        "level": "exploration", "builds": ["default", "miniwasm"], "all_lanes_both": True,
        "lanes": [("tf", lane("c19", {"histories": 16, "steps": 150}, {"histories": 400, "steps": 400}))],
        "post": "c19_compare",
        "rule": "the same seeded histories run on both cargo feature builds against the matching simulated chain; every create-denom / mint / burn message is decoded by the harness's wire reader (URL of the chain's module, sender and holder = contract, denom, amount = reference) and compared with its canonical re-encoding; a build on the other chain kind must fail to instantiate; per-step behaviour digests (result, every query, all ledgers, events with token-factory messages abstracted) of the two builds are compared for equality",
        "require": ["c19:MsgCreateDenom", "c19:MsgMint", "c19:MsgBurn", "c19:other_chain_refused", "c19:histories_compared"],
        "assumptions": [SIM],
    },
}

CHECKS["C20"] = {
    "level": "exploration", "engine": "protomon", "lanes": [],
    "rule": "a driver is generated from the CURRENT sources for every message type reachable through the package's module tree; per type: 4 fully populated instances (cycling through oneof variants) + N random instances are encoded, decoded (must equal), re-encoded (must be byte-identical); the harness's own wire reader extracts (field number, wire type, occurrences) of the fully populated encodings and compares them with what the PINNED schema of the unchanged tree predicts; truncated / bit-flipped bytes must decode to Err or to a value that itself round-trips, never panic; for the messages that are deep field-identical with osmosis-std's independently generated bindings the bytes are decoded and re-encoded by the reference type and must be byte-identical; every registered TYPE_URL must equal '/' + the fully-qualified name derived at run time from the Rust type path (and the reference binding's URL where shared), Any packing must round-trip and reject mismatched / prefixed / suffixed URLs; a name-valued instance (every top-level scalar carries a value derived from its field NAME) is decoded with the harness's wire reader and each pinned field number must carry the value of the pinned field name (catches swapped numbers between same-typed fields); map entries must have the key / value wire types of the pinned map<K,V>; a pinned string field must reject a non-UTF-8 payload and a pinned bytes field must accept and re-encode it; the (value -> protobuf name) table of every enumeration as observed at run time must equal the pinned one; thorough adds the same driver under Miri on a sample of types; distinct = distinct (type, oneof selector, observed wire shape) triples compared with the pinned definition",
    "assumptions": ["the pinned schema (protomon/baseline/schema.json, extracted from the unchanged tree) is the reference for the 549 messages no independent binding shares; it was itself cross-checked against osmosis-std for the 763 deep-identical shared messages", "values are sampled; map fields carry at most one entry in byte-equality checks (prost emits map entries in hash order)", "google.protobuf.* and tendermint.* field types are re-exports of other crates and are generated as defaults", "three generated files (ibc.applications.perm.v1, initia.crypto.v1beta1.ethsecp256k1, initia.tx.v1) are not included in the module tree and are therefore not reachable at run time"],
}


def c19_compare(results, V, binpath, seed):
    """results: list of (name, rc, res, err); compares the per-step digests of the two builds."""
    import subprocess
    by = {"default": {}, "miniwasm": {}}
    for (name, rc, res, err) in results:
        if res is None:
            continue
        lane_, b, i = name.split("/")
        for k, v in res.get("extra", {}).items():
            if k.startswith("digest:"):
                by[b][k] = v
    viol = []
    compared = 0
    for k, d in by["default"].items():
        m = by["miniwasm"].get(k)
        if m is None:
            viol.append({"property": "C19", "what": f"history {k} ran on the default build only", "sig": "history missing in one build", "replay": ""})
            continue
        compared += 1
        if d != m:
            a, b = d.split(","), m.split(",")
            step = next((i for i, (x, y) in enumerate(zip(a, b)) if x != y), min(len(a), len(b)))
            _, shard, h = k.split(":")
            path = f"{V}/target/c19-traces/Osmosis/{seed}-{shard}-{h}.json"
            viol.append({"property": "C19", "what": f"the two builds diverge at step {step} of history {k} (same operations, different observable behaviour)", "sig": "builds diverge", "replay": path})
    return viol, {"c19:histories_compared": compared}


def c16_valgrind(V, binpath, seed):
    """supplementary: one short hostile workload under valgrind memcheck (does not decide C16: the
    property is about panics and the repository has no unsafe code)"""
    import subprocess, re, time
    t0 = time.time()
    try:
        p = subprocess.run(["valgrind", "--error-exitcode=0", "--quiet", "--leak-check=no", binpath("default"), "hist", "--props", "C16", "--seed", str(seed), "--histories", "2", "--steps", "30", "--hostile", "60", "--extreme", "1", "--out", "/dev/null", "--replay-dir", f"{V}/target/valgrind-replays"],
                           capture_output=True, text=True, timeout=900)
    except Exception as e:  # noqa
        return {"valgrind_memcheck": {"status": f"inconclusive: {e}"}}
    errs = len(re.findall(r"^==\d+== (Invalid|Conditional jump|Use of uninitialised|Mismatched|Source and destination)", p.stderr, re.M))
    return {"valgrind_memcheck": {"status": "ran", "rc": p.returncode, "error_reports": errs, "wall_s": round(time.time() - t0, 1)}}
