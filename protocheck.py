"""C20 check driver (protomon engine)."""
import json, os, subprocess, sys, time, fcntl

V = os.path.dirname(os.path.abspath(__file__))
TAGSUF = os.environ.get("MW_TAG", "")
NPROC = int(os.environ.get("VERIF_JOBS", "16"))
NSHARDS = int(os.environ.get("VERIF_SHARDS", "16"))
# evidence of runs against anything but /repo (seeded-change experiments) never lands in evidence/
EVDIR = f"{V}/evidence" if not TAGSUF and os.environ.get("MW_REPO", "/repo") == "/repo" else f"{V}/target/evidence{TAGSUF}"


def build():
    os.makedirs(f"{V}/target", exist_ok=True)
    with open(f"{V}/target/.protolock{TAGSUF}", "w") as lk:
        fcntl.flock(lk, fcntl.LOCK_EX)
        t0 = time.time()
        p = subprocess.run([f"{V}/protomon/build.sh", TAGSUF], capture_output=True, text=True)
        if p.returncode != 0:
            print("\n".join((p.stdout + p.stderr).splitlines()[-40:]))
            print("INCONCLUSIVE build of protomon failed")
            sys.exit(2)
        return time.time() - t0


def binp():
    return f"{V}/target/proto{TAGSUF}/build/release/protomon"


def load_known():
    try:
        return [k for k in json.load(open(f"{V}/known_findings.json"))["findings"] if k["property"] == "C20" and k.get("state") == "open"]
    except FileNotFoundError:
        return []


def miri_lane(seed):
    """the same driver on a sample of types under Miri (UB in prost / bytes on the paths these types use)"""
    proj = f"{V}/target/proto{TAGSUF}/proj"
    env = dict(os.environ, CARGO_NET_OFFLINE="true", MIRIFLAGS="-Zmiri-disable-isolation", CARGO_TARGET_DIR=f"{V}/target/proto{TAGSUF}/miri")
    t0 = time.time()
    try:
        p = subprocess.run(["cargo", "+nightly", "miri", "run", "--offline", "--no-default-features", "--", "run", "--seed", str(seed), "--sample", "120", "--random", "2", "--hostile", "3"],
                           cwd=proj, env=env, capture_output=True, text=True, timeout=1500)
    except subprocess.TimeoutExpired:
        return {"status": "inconclusive: timeout", "wall_s": round(time.time() - t0, 1)}, []
    out = p.stdout
    viol = []
    st = {"wall_s": round(time.time() - t0, 1)}
    if "Undefined Behavior" in p.stderr or "error: unsupported operation" in p.stderr and False:
        first = [l for l in p.stderr.splitlines() if "Undefined Behavior" in l][:1]
        viol.append({"type": "miri", "what": "Miri reports undefined behaviour in the bindings' encode/decode paths: " + (first[0] if first else ""), "sig": "miri UB"})
        st["status"] = "UB reported"
        return st, viol
    if p.returncode != 0:
        st["status"] = "inconclusive: " + (p.stderr.strip().splitlines()[-1][:200] if p.stderr.strip() else f"rc={p.returncode}")
        return st, viol
    try:
        doc = json.loads(out[out.index("{"):])
        st.update({"status": "ran", "types_checked": doc["types_checked"], "evals": doc["evals"], "hostile_decoded": doc["hostile_decoded"], "hostile_rejected": doc["hostile_rejected"]})
        for v in doc["violations"]:
            viol.append(v)
    except Exception as e:  # noqa
        st["status"] = f"inconclusive: unparsable output ({e})"
    return st, viol


def run(pid, tier, seed, spec):
    t0 = time.time()
    bt = build()
    os.makedirs(f"{V}/replays", exist_ok=True)
    os.makedirs(EVDIR, exist_ok=True)
    sd = f"{V}/target/shards{TAGSUF}"
    os.makedirs(sd, exist_ok=True)
    budget = int(os.environ.get("VERIF_BUDGET_S", "300"))
    random_n, hostile_n = (400, 60) if tier == "quick" else (max(2000, budget * 60), 400)
    procs = []
    for i in range(NSHARDS):
        out = f"{sd}/C20-{i}.json"
        try:
            os.remove(out)
        except FileNotFoundError:
            pass
        argv = [binp(), "run", "--seed", str(seed), "--shard", str(i), "--nshards", str(NSHARDS), "--random", str(random_n), "--hostile", str(hostile_n),
                "--pinned", f"{V}/protomon/baseline/schema.json", "--shared", f"{V}/protomon/baseline/shared.json", "--enums", f"{V}/protomon/baseline/enums.json", "--out", out]
        procs.append((i, out, subprocess.Popen(argv, stdout=subprocess.PIPE, stderr=subprocess.PIPE, text=True)))
    agg = {"field_probes": 0, "nested_probes": 0, "wide_probes": 0, "enumerations_checked": 0, "types_checked": 0, "evals": 0, "types_diffed": 0, "diff_evals": 0, "urls_checked": 0, "hostile_decoded": 0, "hostile_rejected": 0, "distinct_shapes": 0, "missing": 0}
    viol, samples, unpinned, inconclusive = [], [], [], []
    for (i, out, p) in procs:
        try:
            so, se = p.communicate(timeout=600 if tier == "quick" else budget * 4 + 900)
        except subprocess.TimeoutExpired:
            p.kill()
            inconclusive.append(f"shard {i} timed out")
            continue
        if p.returncode != 0:
            inconclusive.append(f"shard {i} rc={p.returncode}: {se[-300:]}")
            continue
        d = json.load(open(out))
        for k in agg:
            agg[k] += d[k]
        viol.extend(d["violations"])
        samples.extend(d["samples"][:1])
        unpinned.extend(d["unpinned"])
    miri = None
    if tier == "thorough" and os.environ.get("VERIF_NO_MIRI") != "1":
        miri, mv = miri_lane(seed)
        viol.extend(mv)
    known = load_known()
    new, hits = [], {}
    for v in viol:
        k = next((k for k in known if k["signature"] in v["what"]), None)
        if k:
            hits[k["signature"]] = k
        else:
            new.append(v)
    seen, uniq = set(), []
    for v in new:
        if v["sig"] not in seen:
            seen.add(v["sig"])
            path = f"{V}/replays/C20-{seed}-{len(uniq)}.json"
            json.dump({"engine": "protomon", "type": v.get("type"), "seed": seed, "what": v["what"]}, open(path, "w"))
            v["replay"] = path
            uniq.append(v)
    wall = time.time() - t0
    ev = {
        "property_id": pid, "tier": tier, "seed": seed, "level": spec["level"],
        "coverage": {
            "evaluations": agg["evals"] + agg["diff_evals"],
            "distinct_nontrivial": agg["distinct_shapes"],
            "rule": spec["rule"],
            "samples": samples[:4] or [{"note": "none"}],
            "exhaustive": False,
            "types_checked": agg["types_checked"], "types_with_reference_differential": agg["types_diffed"], "reference_differential_evaluations": agg["diff_evals"],
            "type_urls_checked": agg["urls_checked"], "enumerations_checked": agg["enumerations_checked"], "field_value_probes": agg["field_probes"], "nested_message_type_probes": agg["nested_probes"], "wide_value_probes": agg["wide_probes"], "hostile_inputs_decoded": agg["hostile_decoded"], "hostile_inputs_rejected": agg["hostile_rejected"],
            "types_not_in_pinned_schema": sorted(unpinned)[:50], "pinned_types_missing": agg["missing"],
            "random_instances_per_type": random_n, "miri_lane": miri, "build_s": round(bt, 1),
        },
        "assumptions": spec.get("assumptions", []),
        "wall_s": round(wall, 2), "violations": len(uniq), "known_findings_hit": list(hits), "inconclusive": inconclusive,
    }
    json.dump(ev, open(f"{EVDIR}/{pid}.json", "w"), indent=1)
    for k in hits.values():
        print(f"KNOWN-FINDING: property={pid} {k['what']}")
    if uniq:
        for v in uniq[:20]:
            print(f"VIOLATION property={pid} replay={v['replay']} :: {v['what'][:500]}")
        return 1
    if inconclusive:
        for i in inconclusive:
            print(f"INCONCLUSIVE {pid}: {i}")
        return 2
    if agg["types_checked"] < 100 or agg["urls_checked"] == 0:
        print(f"INCONCLUSIVE {pid}: too little observed: {agg}")
        return 2
    print(f"OK {pid} {tier}: {agg['types_checked']} message types, {agg['evals'] + agg['diff_evals']} instance checks, {agg['types_diffed']} types against the reference bindings, {agg['urls_checked']} type URLs, {wall:.1f}s (build {bt:.1f}s)" + (f", miri: {miri['status']}" if miri else ""))
    return 0


def replay(path):
    doc = json.load(open(path))
    build()
    argv = [binp(), "run", "--seed", str(doc.get("seed", 1)), "--pinned", f"{V}/protomon/baseline/schema.json", "--shared", f"{V}/protomon/baseline/shared.json", "--enums", f"{V}/protomon/baseline/enums.json", "--random", "400", "--hostile", "60"]
    if doc.get("type") and doc["type"] != "miri":
        argv += ["--only", doc["type"]]
    p = subprocess.run(argv, capture_output=True, text=True)
    try:
        d = json.loads(p.stdout)
    except Exception:
        print("INCONCLUSIVE replay failed", p.stderr[-300:])
        return 2
    vs = [v for v in d["violations"] if not doc.get("type") or v.get("type") == doc["type"]]
    for v in vs[:10]:
        print(f"VIOLATION property=C20 replay={path} :: {v['what'][:400]}")
    if not vs:
        print("replay: no violation on the current tree")
    return 1 if vs else 0
