HOOK_COMMITS = []
NOTES = ("Runtime monitoring only: every verdict is 'held on the executions observed'. Exit 0 held / 1 VIOLATION / 2 INCONCLUSIVE. "
         "VERIF_SEED selects the PRNG seed, VERIF_BUDGET_S the per-shard time box of the thorough tier (default 300 s), VERIF_JOBS the shard parallelism (default 16).")
HIST_NOTE = "Trusted base: the chain simulator in harness/mwmon/src/world.rs and the independent primitives in prim.rs (self-tested at start-up). Assumes an honest admin in conservation workloads (DESIGN.md section 6)."
def H(level, ref, technique, note=HIST_NOTE):
    return {"level": level, "ref": ref, "technique": technique, "note": note}
TEXT = {
 "C01": H("Conservation invariant (accounting equation and physical backing at the staker) evaluated after every transaction of random + directed + fault-injected histories on both token-factory builds; held on the histories observed, not all.", "DESIGN.md 3/C01", "online invariant monitor over simulated cross-chain histories with IBC fault injection"),
 "C02": H("Solvency equation of the contract's staked-asset balance and pay-in-full entitlement checks after every transaction, under slashed / generous deliveries and any withdrawal / recovery order; held on the histories observed.", "DESIGN.md 3/C02", "online conservation monitor on simulator bank ledgers"),
 "C03": H("LST supply == State total and contract-held LST == pending batch + refundable transfers after every transaction; exact-delivery oracle (bank diff / packet) for every successful stake at rates above, at and below 1, both builds.", "DESIGN.md 3/C03", "online invariant monitor + per-stake delivery oracle on simulator ledgers"),
 "C05": H("Reference model of unstake requests; each withdrawal compared with floor(received*own/total) and the bank effect; at-most-once and foreign-withdrawal refusals observed; held on the batch compositions and orders explored.", "DESIGN.md 3/C05", "reference-model monitor over histories"),
 "C06": H("Lifecycle invariants after every transaction plus a predictive oracle for SubmitBatch (success iff running, non-empty, due) with the clock steered to deadline-1/0/+1, and authenticated-receipt checks; held on histories observed.", "DESIGN.md 3/C06", "online lifecycle monitor with predictive oracle"),
 "C07": H("Packet-level history checker: contract queue vs simulator packet store after every transaction, recovery conservation, stray acks, injected submission failures; held on the fault sequences explored.", "DESIGN.md 3/C07", "offline-style packet history checker run online, with fault injection at the IBC boundary"),
 "C11": H("Per-reward reference arithmetic (own 256-bit floor) vs State deltas, forwarded packet and treasury payment; FeeWithdraw bounds; across treasury / fee-rate changes.", "DESIGN.md 3/C11", "reference-arithmetic monitor over histories"),
 "C15": H("Every successful transaction that changes the totals must have posted exactly one PostRates with the post-transaction rates (own 18-digit fixed point) to the configured oracle; with no oracle nothing is dispatched; State.rate equals the purchase rate.", "DESIGN.md 3/C15", "oracle-payload monitor on a recording mock"),
}
NOT_APPLICABLE = {p: "check not built yet in this revision (planned in DESIGN.md section 3); not a statement that the technique cannot apply" for p in
  ["C04","C08","C09","C10","C12","C13","C14","C16","C17","C18","C19","C20"]}
