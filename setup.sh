#!/bin/bash
# Cold builds of the harness (default + miniwasm back ends) against /repo, offline.
set -e
cd "$(dirname "$0")"
export CARGO_NET_OFFLINE=true
./buildlib.sh default | tail -2
./buildlib.sh miniwasm miniwasm | tail -2
target/default/build/release/mwmon selftest
target/miniwasm/build/release/mwmon selftest
if [ -x ./protomon/build.sh ]; then ./protomon/build.sh | tail -2; fi
echo setup done
