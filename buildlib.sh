#!/bin/bash
# buildlib.sh <tag> [features]  -- renders target/<tag>/proj from the template and builds mwmon offline.
# MW_REPO selects the repository root (default /repo).
set -e
TAG=$1; FEAT=$2
REPO=${MW_REPO:-/repo}
V="$(cd "$(dirname "$0")" && pwd)"
P=$V/target/$TAG/proj
mkdir -p $P
sed -e "s#@REPO@#$REPO#g" -e "s#@SRC@#$V/harness/mwmon/src#g" $V/harness/mwmon/Cargo.toml.in > $P/Cargo.toml.new
if ! cmp -s $P/Cargo.toml.new $P/Cargo.toml; then mv $P/Cargo.toml.new $P/Cargo.toml; else rm $P/Cargo.toml.new; fi
[ -f $P/Cargo.lock ] || cp $REPO/Cargo.lock $P/Cargo.lock
export CARGO_NET_OFFLINE=true
cd $P
if [ -n "$FEAT" ]; then
  cargo build --release --offline --features "$FEAT" --target-dir $V/target/$TAG/build 2>&1
else
  cargo build --release --offline --target-dir $V/target/$TAG/build 2>&1
fi
