#!/usr/bin/env python3
"""Regenerates MANIFEST.json from checkdefs.py + manifest_text.py (keeps the two in sync)."""
import json, sys, os
V = os.path.dirname(os.path.abspath(__file__))
sys.path.insert(0, V)
from checkdefs import CHECKS
from manifest_text import TEXT, NOT_APPLICABLE, NOTES, HOOK_COMMITS

checks = []
for pid in sorted(CHECKS):
    spec = CHECKS[pid]
    t = TEXT[pid]
    checks.append({
        "property_id": pid,
        "quick_cmd": f"./check {pid} quick",
        "thorough_cmd": f"./check {pid} thorough",
        "evidence_file": f"evidence/{pid}.json",
        "replay_cmd_template": "./check replay {path}",
        "engine": "protomon" if spec.get("engine") == "protomon" else "mwmon",
        "level_claimed": {"category": spec["level"], "text": t["level"], "design_ref": t["ref"]},
        "level_note": t["note"],
        "technique": t["technique"],
    })
m = {
    "version": 1,
    "setup_cmd": "./setup.sh",
    "hooks": {
        "guard": "milkyway_verif (cfg); no hook is compiled into /repo: every property is observed at the contract boundary",
        "enable": "none needed; checks build /repo's crates unmodified via path dependencies (harness/mwmon/Cargo.toml.in)",
        "baseline_off_cmd": "cd /repo && cargo test --workspace --no-fail-fast --offline",
        "source_commits": HOOK_COMMITS,
        "add_only": True,
    },
    "engines": [
        {"name": "mwmon", "path": "harness/mwmon", "serves_properties": [c for c in sorted(CHECKS) if CHECKS[c].get("engine") != "protomon"],
         "kind_free_text": "chain simulator (minichain) running the real contract entry points + online invariant / reference-model / differential monitors over random, directed and fault-injected histories; panics caught per entry-point call"},
        {"name": "protomon", "path": "protomon", "serves_properties": [c for c in sorted(CHECKS) if CHECKS[c].get("engine") == "protomon"],
         "kind_free_text": "generated per-type drivers for the protobuf bindings: round-trip, own wire reader vs pinned schema, differential against osmosis-std bindings, type-URL registry checks, Miri lane"},
    ],
    "checks": checks,
    "notes": NOTES,
    "not_applicable": [{"property_id": k, "reason": v} for k, v in sorted(NOT_APPLICABLE.items()) if k not in CHECKS],
}
json.dump(m, open(f"{V}/MANIFEST.json", "w"), indent=1)
print("claimed:", [c["property_id"] for c in checks])
print("not_applicable:", [n["property_id"] for n in m["not_applicable"]])
