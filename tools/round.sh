#!/bin/bash
# tools/round.sh <round-letter> <Cxx> [scratch]   import + verify + detect both changes of one sub-agent
R=$1; P=$2; export MW_SCRATCH=${3:-/tmp/mw-verify}
for k in 1 2; do
  src=/tmp/mut$R-$P-out/$k; id=$P-$R$k
  [ -f $src/patch.diff ] || { echo "$id: no patch"; continue; }
  python3 /verif/tools/mutant.py import $src $id
  python3 /verif/tools/mutant.py verify $id 2>&1 | tail -2
  python3 /verif/tools/mutant.py detect $id $P 2>&1 | tail -1
done
