#!/bin/bash
# refactor_check.sh <scratch> <ids...> : every quick check must stay silent on behaviour-preserving refactorings
cd /verif
WT=$1; shift
TAG="-mut$(basename $WT | tr -cd 0-9)"
[ -d $WT ] || git -C /repo worktree add --detach $WT HEAD
for r in "$@"; do
  (cd $WT && git reset -q --hard && git checkout -q --detach $(git -C /repo rev-parse HEAD) && git apply --whitespace=nowarn /verif/refactors/$r/patch.diff) || { echo "$r PATCH-FAILED"; continue; }
  res=""
  for c in C01 C02 C03 C04 C05 C06 C07 C08 C09 C10 C11 C12 C13 C14 C15 C16 C17 C18 C19; do
    out=$(MW_REPO=$WT MW_TAG=$TAG ./check $c quick 2>&1 | grep -E "^(OK|VIOLATION|INCONCLUSIVE|KNOWN)" | head -1)
    case "$out" in OK*) ;; *) res="$res | $c: ${out:0:300}" ;; esac
  done
  if grep -q "packages/initia-proto" /verif/refactors/$r/patch.diff; then
    out=$(MW_REPO=$WT MW_TAG=$TAG ./check C20 quick 2>&1 | grep -E "^(OK|VIOLATION|INCONCLUSIVE|KNOWN)" | head -1)
    case "$out" in OK*) ;; *) res="$res | C20: ${out:0:300}" ;; esac
  fi
  if [ -z "$res" ]; then echo "$r SILENT (19 checks)"; else echo "$r ALARM $res"; fi
  python3 - "$r" "$res" <<'PY'
import json,sys
r,res=sys.argv[1],sys.argv[2]
p=f"/verif/refactors/{r}/meta.json"; m=json.load(open(p)); m["quick_checks"]="silent" if not res else res; json.dump(m,open(p,"w"),indent=1)
PY
  (cd $WT && git reset -q --hard)
done
