#!/bin/bash
# refactor_check_subset.sh <scratch> "<checks>" <ids...> : like refactor_check.sh, for a chosen subset of checks
# (used to re-confirm silence of the checks a strengthening round touched); results go to meta.json["quick_checks_subset"]
cd /verif
WT=$1; CHECKS=$2; shift 2
TAG="-mut$(basename $WT | tr -cd 0-9)"
[ -d $WT ] || git -C /repo worktree add --detach $WT HEAD
for r in "$@"; do
  (cd $WT && git reset -q --hard && git checkout -q --detach $(git -C /repo rev-parse HEAD) && git apply --whitespace=nowarn /verif/refactors/$r/patch.diff) || { echo "$r PATCH-FAILED"; continue; }
  res=""
  for c in $CHECKS; do
    out=$(MW_REPO=$WT MW_TAG=$TAG ./check $c quick 2>&1 | grep -E "^(OK|VIOLATION|INCONCLUSIVE|KNOWN)" | head -1)
    case "$out" in OK*) ;; *) res="$res | $c: ${out:0:300}" ;; esac
  done
  if [ -z "$res" ]; then echo "$r SILENT ($CHECKS)"; else echo "$r ALARM $res"; fi
  python3 - "$r" "$res" "$CHECKS" <<'PY'
import json,sys
r,res,checks=sys.argv[1:4]
p=f"/verif/refactors/{r}/meta.json"; m=json.load(open(p)); m["quick_checks_subset"]={"checks":checks,"result":"silent" if not res else res}; json.dump(m,open(p,"w"),indent=1)
PY
  (cd $WT && git reset -q --hard)
done
