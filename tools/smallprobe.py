#!/usr/bin/env python3
"""tools/smallprobe.py <id>...   does the small-scope enumeration lane ALONE catch the seeded change?
Uses the scratch worktree $MW_SCRATCH (default /tmp/mw-verify); records meta.json["small_lane"]."""
import json, os, subprocess, sys, tempfile, shutil, glob
V = os.path.dirname(os.path.dirname(os.path.abspath(__file__)))
sys.path.insert(0, V + "/tools")
import mutant
PROPS = {"C01", "C02", "C03", "C05", "C06", "C07", "C11", "C15"}
for i in sys.argv[1:]:
    m = mutant.load(i)
    prop = m.get("property")
    if prop not in PROPS:
        continue
    mutant.ensure_wt(); mutant.reset_wt()
    ok, o = mutant.apply(f"{V}/seeded/{i}/patch.diff")
    assert ok, o
    tag = "default" + mutant.MTAG
    env = dict(os.environ, MW_REPO=mutant.WT, CARGO_NET_OFFLINE="true"); env.pop("CARGO_TARGET_DIR", None)
    p = subprocess.run([f"{V}/buildlib.sh", tag], env=env, capture_output=True, text=True)
    if p.returncode != 0:
        print(i, "build failed"); continue
    out = tempfile.mkdtemp(prefix="smallprobe")
    procs = [subprocess.Popen([f"{V}/target/{tag}/build/release/mwmon", "lane", "smallscope", "--prop", prop, "--seed", "1", "--shard", str(k), "--nshards", "16", "--depth", "6", "--replay-dir", out + "/rp", "--out", f"{out}/s{k}.json"], stdout=subprocess.DEVNULL, stderr=subprocess.DEVNULL) for k in range(16)]
    for q in procs: q.wait()
    viol = []
    for f in glob.glob(out + "/s*.json"):
        viol += json.load(open(f))["violations"]
    m["small_lane"] = bool(viol)
    mutant.save(i, m)
    print(i, prop, "small lane:", "CAUGHT " + viol[0]["what"][:160] if viol else "silent")
    shutil.rmtree(out)
    mutant.reset_wt()
