#!/usr/bin/env python3
"""Seeded-change bookkeeping.

  tools/mutant.py import <src_dir> <id>      copy patch.diff / demo.diff / meta.json of a sub-agent into seeded/<id>/
  tools/mutant.py verify <id>...             in a scratch worktree: suite green with patch; demo fails with, passes without
  tools/mutant.py detect <id> [Cxx ...]      build the harness against the patched scratch worktree and run quick checks
  tools/mutant.py table                      print which checks catch which changes (from seeded/*/meta.json)

Scratch worktree: /tmp/mw-verify (created on demand from /repo HEAD, removed with `tools/mutant.py clean`).
"""
import json, os, subprocess, sys, shutil, glob, time
V = os.path.dirname(os.path.dirname(os.path.abspath(__file__)))
WT = os.environ.get("MW_SCRATCH", "/tmp/mw-verify")
ENV = dict(os.environ, CARGO_NET_OFFLINE="true", CARGO_TARGET_DIR=f"{WT}/target")
MTAG = "-mut" + "".join(c for c in os.path.basename(WT) if c.isdigit())

def sh(cmd, cwd=None, env=None, timeout=3600):
    p = subprocess.run(cmd, shell=True, cwd=cwd, env=env or ENV, capture_output=True, text=True, timeout=timeout)
    return p.returncode, p.stdout + p.stderr

def ensure_wt():
    if not os.path.isdir(WT):
        rc, o = sh(f"git -C /repo worktree add --detach {WT} HEAD")
        assert rc == 0, o
    else:
        sh("git reset -q --hard && git clean -qfd -e target", cwd=WT)
        head = subprocess.check_output("git -C /repo rev-parse HEAD", shell=True, text=True).strip()
        sh(f"git checkout -q --detach {head}", cwd=WT)

def reset_wt():
    sh("git reset -q --hard && git clean -qfd -e target", cwd=WT)

def apply(diff):
    rc, o = sh(f"git apply --whitespace=nowarn {diff}", cwd=WT)
    if rc != 0:
        rc, o = sh(f"git apply --3way --whitespace=nowarn {diff}", cwd=WT)
    return rc == 0, o

def suite():
    rc, o = sh("cargo test --workspace --offline --no-fail-fast 2>&1", cwd=WT)
    passed = sum(int(l.split(" passed")[0].split()[-1]) for l in o.splitlines() if l.startswith("test result:"))
    failed = sum(int(l.split(" failed")[0].split()[-1]) for l in o.splitlines() if l.startswith("test result:"))
    return rc, passed, failed, o

def load(i):
    return json.load(open(f"{V}/seeded/{i}/meta.json"))

def save(i, m):
    json.dump(m, open(f"{V}/seeded/{i}/meta.json", "w"), indent=1)

def cmd_import(src, i):
    d = f"{V}/seeded/{i}"
    os.makedirs(d, exist_ok=True)
    for f in ("patch.diff", "demo.diff", "meta.json"):
        shutil.copy(f"{src}/{f}", f"{d}/{f}")
    m = load(i)
    m["id"] = i
    m["origin"] = "independent sub-agent given only the property text and a scratch worktree"
    save(i, m)
    print("imported", i)

def cmd_verify(ids):
    ensure_wt()
    for i in ids:
        d = f"{V}/seeded/{i}"
        m = load(i)
        reset_wt()
        ok, o = apply(f"{d}/patch.diff")
        if not ok:
            m["verify"] = {"ok": False, "why": "patch does not apply on current HEAD: " + o[-300:]}
            save(i, m); print(i, "PATCH DOES NOT APPLY"); continue
        rc, passed, failed, o = suite()
        green = (rc == 0 and failed == 0 and passed >= 107)
        demo_cmd = m.get("demo_cmd", "")
        # strip env assignments the agent may have put in
        demo_cmd = " ".join(t for t in demo_cmd.split() if not t.startswith("CARGO_TARGET_DIR="))
        if demo_cmd.startswith("cd "):
            demo_cmd = demo_cmd.split("&&", 1)[1].strip() if "&&" in demo_cmd else demo_cmd
        ok2, o2 = apply(f"{d}/demo.diff")
        rc_with, out_with = sh(demo_cmd + " 2>&1", cwd=WT)
        # now without the patch
        sh(f"git apply -R --whitespace=nowarn {d}/patch.diff || git apply -R --3way {d}/patch.diff", cwd=WT)
        rc_without, out_without = sh(demo_cmd + " 2>&1", cwd=WT)
        m["verify"] = {
            "ok": bool(green and ok2 and rc_with != 0 and rc_without == 0),
            "suite_with_patch": {"passed": passed, "failed": failed},
            "demo_applies": ok2, "demo_with_patch_rc": rc_with, "demo_without_patch_rc": rc_without,
            "repo_head": subprocess.check_output("git -C /repo rev-parse --short HEAD", shell=True, text=True).strip(),
            "demo_cmd_used": demo_cmd,
        }
        save(i, m)
        print(i, "verified" if m["verify"]["ok"] else "NOT VERIFIED", m["verify"])
        reset_wt()

def cmd_detect(i, checks):
    ensure_wt()
    d = f"{V}/seeded/{i}"
    m = load(i)
    reset_wt()
    ok, o = apply(f"{d}/patch.diff")
    assert ok, o
    res = m.get("detect", {})
    env = dict(os.environ, MW_REPO=WT, MW_TAG=MTAG, CARGO_NET_OFFLINE="true")
    env.pop("CARGO_TARGET_DIR", None)
    for c in checks:
        t0 = time.time()
        p = subprocess.run([f"{V}/check", c, "quick"], cwd=V, env=env, capture_output=True, text=True)
        lines = [l for l in p.stdout.splitlines() if l.startswith(("VIOLATION", "INCONCLUSIVE", "OK", "KNOWN"))]
        res[c] = {"rc": p.returncode, "first": lines[0][:400] if lines else p.stdout[-300:], "wall_s": round(time.time() - t0, 1)}
        print(i, c, "rc=", p.returncode, (lines[0][:300] if lines else ""))
    m["detect"] = res
    m["detected_by"] = sorted(c for c, r in res.items() if r["rc"] == 1)
    save(i, m)
    reset_wt()

def cmd_table():
    rows = []
    for f in sorted(glob.glob(f"{V}/seeded/*/meta.json")):
        m = json.load(open(f))
        rows.append((m.get("id"), m.get("property"), "yes" if m.get("verify", {}).get("ok") else "no", ",".join(m.get("detected_by", [])) or "-", m.get("summary", "")[:90]))
    for r in rows:
        print(" | ".join(str(x) for x in r))

def cmd_designtable():
    print("| id | breaks | change (as described by its author) | needs | verified | caught by (quick tier) |")
    print("|---|---|---|---|---|---|")
    for f in sorted(glob.glob(f"{V}/seeded/*/meta.json")):
        m = json.load(open(f))
        def short(t, n):
            t = " ".join(str(t).split()).replace("|", "/")
            return t if len(t) <= n else t[: n - 1] + "…"
        note = m.get("note", "")
        caught = ", ".join(m.get("detected_by", [])) or ("— " + note if note else "—")
        print(f"| {m.get('id')} | {m.get('property')} | {short(m.get('summary', ''), 150)} | {short(m.get('needs', ''), 110)} | {'yes' if m.get('verify', {}).get('ok') else 'no'} | {caught} |")

if __name__ == "__main__":
    a = sys.argv[1:]
    if not a: print(__doc__); sys.exit(2)
    if a[0] == "import": cmd_import(a[1], a[2])
    elif a[0] == "verify": cmd_verify(a[1:])
    elif a[0] == "detect": cmd_detect(a[1], a[2:])
    elif a[0] == "table": cmd_table()
    elif a[0] == "designtable": cmd_designtable()
    elif a[0] == "clean":
        sh(f"git -C /repo worktree remove --force {WT}"); sh(f"rm -rf {V}/target/default-mut {V}/target/miniwasm-mut {V}/target/shards-mut")
