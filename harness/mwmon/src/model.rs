//! Online monitors for the history properties (C01-C07, C11, C15, C16 panics, C17 request index).
//! Each is a deterministic function of (pre-observation, operation, result, post-observation,
//! simulator ledgers) plus a small reference model that is fed only from simulator-level flows
//! and message arguments.
use crate::obs::*;
use crate::prim::{self, mul128};
use crate::scenario::*;
use crate::world::*;
use serde_json::{json, Value};
use std::collections::{BTreeMap, BTreeSet};

#[derive(Clone, Debug)]
pub struct Viol {
    pub prop: &'static str,
    pub what: String,
}

#[derive(Clone, Debug, Default)]
pub struct Req {
    pub amount: u128,
    pub withdrawn: bool,
}

#[derive(Clone, Debug, Default)]
pub struct Model {
    pub enabled: BTreeSet<&'static str>,
    pub stakers: BTreeSet<String>,
    pub f_fwd: u128,
    pub r_rebase: i128,
    pub w_swept: u128,
    pub staker_ext: i128,
    pub donations_s: u128,
    pub donations_t: u128,
    pub paid: BTreeMap<u64, u128>,
    pub delivered: BTreeMap<u64, u128>,
    pub fees_backed: i128,
    pub consumed: BTreeSet<(String, u64)>,
    pub reqs: BTreeMap<(u64, String), Req>,
    pub last: BTreeMap<u64, (String, u128, u64)>,
    pub counters: BTreeMap<String, u64>,
    pub distinct: BTreeMap<&'static str, BTreeSet<u64>>,
    pub evals: BTreeMap<&'static str, u64>,
    pub panics: BTreeMap<String, u64>,
    pub known_users: BTreeSet<String>,
    /// LST minted for native-chain recipients (sum of minted amounts per recipient)
    pub lst_owed_native: BTreeMap<String, u128>,
    /// due time the very first pending batch must have: instantiation time + batch period
    pub first_due: u64,
    pub first_due_checked: bool,
    /// oracle address of the last accepted protocol section (None = never updated)
    pub intended_oracle: Option<Option<String>>,
    /// set once the totals became unobservable; the flow bookkeeping is then incomplete for good
    pub unknown: bool,
}

fn rank(s: &str) -> u8 {
    match s {
        "pending" => 0,
        "submitted" => 1,
        "received" => 2,
        _ => 9,
    }
}

fn ge_prod(a: u128, b: u128, c: u128, d: u128) -> bool {
    mul128(a, b) >= mul128(c, d)
}

pub fn rate_in_bounds(n: u128, l: u128) -> bool {
    if l == 0 {
        return true;
    }
    if n == 0 {
        return false;
    }
    mul128(n, 1000) >= mul128(l, 1) && mul128(l, 1000) >= mul128(n, 1)
}

/// Would the totals after `op` (were it to succeed) still have a rate inside the bounds?
pub fn would_be_in_bounds(sc: &Sc, pre: &Obs, op: &Op) -> bool {
    let m = op.msg_value();
    let funds: Vec<(String, u128)> = match op {
        Op::Exec { funds, .. } | Op::ExecProbe { funds, .. } => funds.clone(),
        Op::Hook { channel, amount, .. } => vec![(ibc_denom_for(channel), *amount)],
        _ => vec![],
    };
    let paid_s: u128 = funds.iter().filter(|(d, _)| d == &sc.s).map(|(_, a)| *a).sum();
    if let Some(r) = m.get("resume_contract") {
        return rate_in_bounds(vu128(r, "total_native_token"), vu128(r, "total_liquid_stake_token"));
    }
    if m.get("receive_rewards").is_some() {
        return rate_in_bounds(pre.n.saturating_add(paid_s), pre.l) && rate_in_bounds(pre.n.saturating_add(paid_s / 2), pre.l);
    }
    if m.get("liquid_stake").is_some() {
        let (n0, l0) = if pre.l == 0 { (0, 0) } else { (pre.n, pre.l) };
        let minted = if n0 == 0 { paid_s } else { prim::mul_div_floor(paid_s, l0, n0).unwrap_or(u128::MAX) };
        return rate_in_bounds(n0.saturating_add(paid_s), l0.saturating_add(minted));
    }
    if m.get("submit_batch").is_some() {
        let b = pre.pending.total.min(pre.l);
        let u = if pre.l == 0 { 0 } else { prim::mul_div_floor(pre.n, b, pre.l).unwrap_or(0) };
        return rate_in_bounds(pre.n.saturating_sub(u), pre.l - b);
    }
    true
}

pub fn mag(x: u128) -> u32 {
    // decimal order of magnitude, in steps of three
    let mut m = 0;
    let mut y = x;
    while y >= 1000 {
        y /= 1000;
        m += 1;
    }
    m
}

pub fn regime(n: u128, l: u128) -> &'static str {
    if l == 0 && n == 0 {
        "empty"
    } else if l == 0 {
        "ownerless"
    } else if n == l {
        "par"
    } else if n > l {
        "above"
    } else {
        "below"
    }
}

impl Model {
    pub fn new(props: &[&'static str], sc: &Sc) -> Model {
        let mut m = Model::default();
        for p in props {
            m.enabled.insert(p);
        }
        m.stakers.insert(sc.staker.clone());
        for u in &sc.users {
            m.known_users.insert(u.clone());
        }
        m.known_users.insert(sc.contract_user.clone());
        // Sc::new instantiates at the world's current block time and does not advance the clock
        m.first_due = sc.w.now_s().saturating_add(sc.cfg.batch_period);
        m
    }
    pub fn on(&self, p: &str) -> bool {
        self.enabled.contains(p)
    }
    pub fn count(&mut self, k: &str) {
        *self.counters.entry(k.to_string()).or_insert(0) += 1;
    }
    fn seen(&mut self, prop: &'static str, key: String) {
        *self.evals.entry(prop).or_insert(0) += 1;
        self.distinct.entry(prop).or_default().insert(prim::fnv64(key.as_bytes()));
    }
    fn abstract_state(o: &Obs, sc: &Sc) -> String {
        let cap = |x: usize| x.min(3);
        let nb = |s: &str| cap(o.batches.iter().filter(|b| b.status == s).count());
        let np = |s: &str| cap(o.queue.iter().filter(|p| p.status == s).count());
        format!(
            "{}|b{}{}{}|q{}{}{}|st{}|tr{}|or{}|pc{}",
            regime(o.n, o.l),
            nb("pending"),
            nb("submitted"),
            nb("received"),
            np("sent"),
            np("ack_failure"),
            np("timed_out"),
            o.stopped as u8,
            o.treasury().is_some() as u8,
            o.oracle().is_some() as u8,
            cap(o.pending.count as usize),
        ) + if sc.cfg.prefix == sc.cfg.native_prefix { "|eq" } else { "" }
    }

    /// Evaluate every enabled monitor on one step.
    pub fn step(&mut self, sc: &Sc, pre_w: &World, pre: &Obs, op: &Op, res: &TxResult, post: &Obs) -> Vec<Viol> {
        let mut v: Vec<Viol> = vec![];
        let kind = op.kind();
        let okc = if res.ok { "ok" } else { "fail" };
        self.count(&format!("op:{kind}:{okc}"));
        for p in &res.panics {
            *self.panics.entry(p.clone()).or_insert(0) += 1;
        }
        if self.on("C16") {
            // the property covers states (and resulting states) whose exchange rate lies in [1e-3, 1e3]
            let in_bounds = pre.state_ok && rate_in_bounds(pre.n, pre.l) && would_be_in_bounds(sc, pre, op);
            for p in &res.panics {
                if in_bounds {
                    v.push(Viol { prop: "C16", what: format!("panic in {p} during {kind}") });
                } else {
                    self.count("panic_outside_rate_bounds");
                }
            }
            if in_bounds {
                self.seen("C16", format!("{kind}|{okc}|{}", Self::abstract_state(pre, sc)));
            }
        }
        if !post.errors.is_empty() && self.on("C16") && pre.state_ok && rate_in_bounds(pre.n, pre.l) && would_be_in_bounds(sc, pre, op) {
            for e in &post.errors {
                if e.contains("panic:") {
                    v.push(Viol { prop: "C16", what: format!("query panicked after {kind}: {e}") });
                }
            }
        }
        // when the State query itself is unavailable (totals outside the representable rate range) the
        // totals are unknown: nothing but the panic monitor can be evaluated on such a step
        if !pre.state_ok || !post.state_ok {
            self.count("state_unknown_steps");
            self.unknown = true;
        }
        if self.unknown {
            return v;
        }
        let msg = op.msg_value();
        let abs = Self::abstract_state(pre, sc);
        // every address that ever was the configured staker
        self.stakers.insert(post.staker());

        // ---------------- bookkeeping from simulator flows
        let s = &sc.s;
        let t = &sc.t;
        let q = &sc.q;
        let sends_s: u128 = res.events.iter().map(|e| if let Ev::IbcSend { denom, amount, sender, .. } = e { if denom == s && sender == q { *amount } else { 0 } } else { 0 }).sum();
        let is_stake = kind == "liquid_stake";
        let is_reward = kind == "hook:receive_rewards";
        let is_deliver = kind == "hook:receive_unstaked_tokens";
        let is_unstake = kind == "liquid_unstake";
        let is_submit = kind == "submit_batch";
        let is_withdraw = kind == "withdraw";
        let is_recover = kind == "recover_pending_ibc_transfers";
        let is_resume = kind == "resume_contract";
        let is_feew = kind == "fee_withdraw";
        let (op_sender, op_funds): (String, Vec<(String, u128)>) = match op {
            Op::Exec { sender, funds, contract, .. } if contract == q => (sender.clone(), funds.clone()),
            Op::Hook { native_sender, channel, amount, contract, .. } if contract == q => (hook_sender(channel, native_sender, &sc.w.prefix), vec![(ibc_denom_for(channel), *amount)]),
            Op::HookForeign { native_sender, channel, contract, .. } if contract == q => (hook_sender(channel, native_sender, &sc.w.prefix), vec![]),
            _ => (String::new(), vec![]),
        };
        let paid_s: u128 = op_funds.iter().filter(|(d, _)| d == s).map(|(_, a)| *a).sum();
        let paid_t: u128 = op_funds.iter().filter(|(d, _)| d == t).map(|(_, a)| *a).sum();

        if res.ok {
            if is_stake || is_reward {
                self.f_fwd += sends_s;
            }
            if is_resume {
                let nn = msg.get("resume_contract").map(|m| vu128(m, "total_native_token")).unwrap_or(0);
                self.r_rebase += nn as i128 - pre.n as i128;
            }
            if is_stake && pre.l == 0 && pre.n > 0 {
                self.w_swept += pre.n;
                self.count("ownerless_sweep");
            }
            // donations: funds attached to anything that is not the matching payable message
            if !(is_stake || is_reward || is_deliver) {
                self.donations_s += paid_s;
            }
            if !is_unstake {
                self.donations_t += paid_t;
            }
            // other coins attached to payable messages stay in the contract as well, but
            // must_pay refuses them, so nothing to track.
            if is_reward {
                let to_treasury: u128 = res.events.iter().map(|e| if let Ev::BankSend { from, denom, amount, .. } = e { if from == q && denom == s { *amount } else { 0 } } else { 0 }).sum();
                self.fees_backed += paid_s as i128 - sends_s as i128 - to_treasury as i128;
            }
            if is_feew {
                let out: u128 = res.events.iter().map(|e| if let Ev::BankSend { from, denom, amount, .. } = e { if from == q && denom == s { *amount } else { 0 } } else { 0 }).sum();
                self.fees_backed -= out as i128;
            }
            if is_deliver {
                let b = msg.get("receive_unstaked_tokens").map(|m| vu64(m, "batch_id")).unwrap_or(0);
                *self.delivered.entry(b).or_insert(0) += paid_s;
                if let Op::Hook { native_sender, .. } = op {
                    if self.stakers.contains(native_sender) {
                        let exp = pre.batches.iter().find(|x| x.id == b).map(|x| x.expected).unwrap_or(0);
                        self.staker_ext += exp as i128 - paid_s as i128;
                    }
                }
            }
            if is_withdraw {
                let b = msg.get("withdraw").map(|m| vu64(m, "batch_id")).unwrap_or(0);
                let out: u128 = res.events.iter().map(|e| if let Ev::BankSend { from, denom, amount, .. } = e { if from == q && denom == s { *amount } else { 0 } } else { 0 }).sum();
                *self.paid.entry(b).or_insert(0) += out;
            }
            // what the contract pays to itself (it may be configured as its own treasury) stays with it without
            // backing any of the three obligations: booked like a donation
            for e in &res.events {
                if let Ev::BankSend { from, to, denom, amount } = e {
                    if from == q && to == q {
                        if denom == s {
                            self.donations_s += amount;
                        }
                        if denom == t {
                            self.donations_t += amount;
                        }
                    }
                }
            }
            match op {
                Op::NativeMint { addr, amount } if self.stakers.contains(addr) => self.staker_ext += *amount as i128,
                Op::NativeBurn { addr, amount } if self.stakers.contains(addr) => self.staker_ext -= *amount as i128,
                Op::BankMint { addr, denom, amount } if addr == q => {
                    if denom == s {
                        self.donations_s += amount;
                    }
                    if denom == t {
                        self.donations_t += amount;
                    }
                }
                _ => {}
            }
            // direct bank sends into the contract by other contracts' messages are not generated.
        }

        // recoveries consume refunded packets: everything refundable that left the queue in this tx
        let mut consumed_now: Vec<QObs> = vec![];
        if res.ok && is_recover {
            let forced_by_admin = msg.get("recover_pending_ibc_transfers").and_then(|m| m.get("selected_packets")).map(|x| !x.is_null()).unwrap_or(false) && op_sender == sc.admin_now();
            for p in &pre.queue {
                let refundable = p.status == "ack_failure" || p.status == "timed_out";
                // an admin-forced recovery may also take transfers that are still in flight; their
                // value has then been re-sent once and must never be re-sent again
                if (refundable || (forced_by_admin && p.status == "sent")) && !post.queue.iter().any(|x| x.seq == p.seq && x.status == p.status && x.amount == p.amount) {
                    consumed_now.push(p.clone());
                    self.consumed.insert((pre.channel(), p.seq));
                    if !refundable {
                        self.count("forced_recovery_of_inflight");
                    }
                }
            }
        }

        // ---------------- C01
        if self.on("C01") {
            let e_sum: u128 = post.batches.iter().filter(|b| b.status != "pending").map(|b| b.expected).sum();
            let lhs = post.n as i128;
            let rhs = self.f_fwd as i128 + self.r_rebase - e_sum as i128 - self.w_swept as i128;
            if lhs != rhs {
                v.push(Viol { prop: "C01", what: format!("accounting: staked total {} != forwarded {} + rebased {} - set aside {} - swept {} (= {}) after {kind}", post.n, self.f_fwd, self.r_rebase, e_sum, self.w_swept, rhs) });
            }
            // physical backing at the staker
            let mut side: i128 = 0;
            for a in &self.stakers {
                side += sc.w.nbal(a, NATIVE_DENOM) as i128;
            }
            for p in sc.w.packets.values() {
                if &p.sender == q && &p.denom == s && self.stakers.contains(&p.receiver) {
                    match p.status {
                        PStatus::InFlight => side += p.amount as i128,
                        PStatus::ErrAcked | PStatus::TimedOut => {
                            // refunded to the contract: it still backs the total only while the contract has it
                            // on record as awaiting re-send (a refund nobody can re-send has left the staker side)
                            let on_record = p.channel != post.channel() || post.queue.iter().any(|x| x.seq == p.seq && (x.status == "ack_failure" || x.status == "timed_out"));
                            if !self.consumed.contains(&(p.channel.clone(), p.seq)) && on_record {
                                side += p.amount as i128
                            }
                        }
                        PStatus::Acked => {}
                    }
                }
            }
            let outstanding: u128 = post.batches.iter().filter(|b| b.status == "submitted").map(|b| b.expected).sum();
            let want = post.n as i128 + outstanding as i128 + self.w_swept as i128 - self.r_rebase + self.staker_ext;
            if side != want {
                v.push(Viol { prop: "C01", what: format!("backing: staker side holds {side} (ledger + in flight + refunded awaiting re-send) but total {} + outstanding batches {} + swept {} - rebased {} + external {} = {want} after {kind}", post.n, outstanding, self.w_swept, self.r_rebase, self.staker_ext) });
            }
            if res.ok && (is_stake || is_reward || is_submit || is_recover || is_resume || kind.starts_with("relay")) {
                self.seen("C01", format!("{kind}|{abs}"));
            }
        }

        // ---------------- C02
        if self.on("C02") {
            let mut owed: i128 = 0;
            for b in &post.batches {
                if b.status == "received" {
                    owed += b.received as i128 - *self.paid.get(&b.id).unwrap_or(&0) as i128;
                    let d = *self.delivered.get(&b.id).unwrap_or(&0);
                    if d != b.received {
                        v.push(Viol { prop: "C02", what: format!("batch {} reports received {} but {} was delivered for it", b.id, b.received, d) });
                    }
                }
            }
            let refundable: u128 = post.queue.iter().filter(|p| &p.denom == s && (p.status == "ack_failure" || p.status == "timed_out")).map(|p| p.amount).sum();
            let want = owed + self.fees_backed + refundable as i128 + self.donations_s as i128;
            if post.bal_s as i128 != want {
                v.push(Viol { prop: "C02", what: format!("solvency: contract holds {} of the staked asset but owes {want} (batches {owed} + fees {} + refundable {refundable} + donations {}) after {kind}", post.bal_s, self.fees_backed, self.donations_s) });
            }
            if post.fees as i128 != self.fees_backed + self.w_swept as i128 {
                v.push(Viol { prop: "C02", what: format!("fee counter {} != retained fees {} + swept {} after {kind}", post.fees, self.fees_backed, self.w_swept) });
            }
            // entitlement: these must be paid in full
            if !res.ok && res.bank_insufficient() {
                let entitled = if is_withdraw {
                    let b = msg.get("withdraw").map(|m| vu64(m, "batch_id")).unwrap_or(0);
                    self.reqs.get(&(b, op_sender.clone())).map(|r| !r.withdrawn).unwrap_or(false)
                } else if is_feew {
                    let a = msg.get("fee_withdraw").map(|m| vu128(m, "amount")).unwrap_or(0);
                    (a as i128) <= self.fees_backed
                } else {
                    is_recover
                };
                if entitled {
                    v.push(Viol { prop: "C02", what: format!("entitled {kind} not paid in full: {}", res.err) });
                }
            }
            if res.ok && (is_withdraw || is_feew || is_recover || is_deliver || is_reward || kind.starts_with("relay")) {
                self.seen("C02", format!("{kind}|{abs}"));
            }
        }

        // ---------------- C03 + C04 (history lane)
        if self.on("C03") || self.on("C04") {
            if self.on("C03") {
                if post.supply_t != post.l {
                    v.push(Viol { prop: "C03", what: format!("LST supply {} != LST total {} after {kind}", post.supply_t, post.l) });
                }
                let refundable_t: u128 = post.queue.iter().filter(|p| &p.denom == t && (p.status == "ack_failure" || p.status == "timed_out")).map(|p| p.amount).sum();
                let want = post.pending.total + refundable_t + self.donations_t;
                if post.bal_t != want {
                    v.push(Viol { prop: "C03", what: format!("contract holds {} LST but pending batch {} + refundable {} + donations {} = {want} after {kind}", post.bal_t, post.pending.total, refundable_t, self.donations_t) });
                }
            }
            if is_stake {
                let ls = msg.get("liquid_stake").cloned().unwrap_or(Value::Null);
                let mint_to = ls.get("mint_to").and_then(|x| x.as_str()).map(|x| x.to_string());
                let flag = ls.get("transfer_to_native_chain").and_then(|x| x.as_bool()).unwrap_or(false);
                let expected = ls.get("expected_mint_amount").and_then(|x| x.as_str()).and_then(|x| x.parse::<u128>().ok());
                let plain_sender = matches!(prim::bech32_decode(&op_sender), Some((_, p, _)) if p.len() == 20);
                let (n0, l0) = if pre.l == 0 { (0u128, 0u128) } else { (pre.n, pre.l) };
                let ref_mint = if n0 == 0 { Some(paid_s) } else { prim::mul_div_floor(paid_s, l0, n0) };
                if res.ok {
                    let minted: Vec<(u128, String)> = res.events.iter().filter_map(|e| if let Ev::TfMint { denom, amount, to, .. } = e { if denom == t { Some((*amount, to.clone())) } else { None } } else { None }).collect();
                    let total_minted: u128 = minted.iter().map(|x| x.0).sum();
                    if self.on("C04") {
                        match ref_mint {
                            Some(rm) if rm == total_minted => {}
                            _ => v.push(Viol { prop: "C04", what: format!("stake of {paid_s} at totals {}/{} minted {total_minted}, reference floor = {:?}", pre.n, pre.l, ref_mint) }),
                        }
                        if total_minted == 0 {
                            v.push(Viol { prop: "C04", what: "successful stake minted zero".into() });
                        }
                        if let Some(e) = expected {
                            if total_minted < e {
                                v.push(Viol { prop: "C04", what: format!("minted {total_minted} below expected_mint_amount {e}") });
                            }
                        }
                        if paid_s < pre.min_stake() {
                            v.push(Viol { prop: "C04", what: format!("stake of {paid_s} below the configured minimum {} succeeded", pre.min_stake()) });
                        }
                        // redemption rate of existing holders not lowered: (N')*L >= N*(L')
                        if pre.l > 0 && !ge_prod(post.n, pre.l, pre.n, post.l) {
                            v.push(Viol { prop: "C04", what: format!("stake lowered the redemption rate: {}/{} -> {}/{}", pre.n, pre.l, post.n, post.l) });
                        }
                        // immediate round trip never profitable: what the staker can unstake at once is the LST
                        // the contract handed out in this transaction (never less than what was minted)
                        let handed: u128 = res.events.iter().map(|e| match e {
                            Ev::BankSend { from, denom, amount, .. } if from == q && denom == t => *amount,
                            Ev::IbcSend { sender, denom, amount, .. } if sender == q && denom == t => *amount,
                            _ => 0,
                        }).sum();
                        let in_hand = handed.max(total_minted);
                        if post.l > 0 {
                            if let Some(back) = prim::mul_div_floor(post.n, in_hand, post.l) {
                                if back > paid_s {
                                    v.push(Viol { prop: "C04", what: format!("round trip profit: paid {paid_s}, minted {total_minted}, handed out {handed}, redeemable {back}") });
                                }
                            }
                        }
                        self.seen("C04", format!("stake|{}|{}|{}|{}", regime(pre.n, pre.l), (paid_s == pre.min_stake()) as u8, mag(paid_s), mag(pre.n)));
                    }
                    if self.on("C03") {
                        if post.l != l0 + total_minted {
                            v.push(Viol { prop: "C03", what: format!("LST total moved {} -> {} but {total_minted} was minted", pre.l, post.l) });
                        }
                        let recipient = mint_to.clone().unwrap_or_else(|| op_sender.clone());
                        // (a prefix names its chain in either spelling: bech32 is case-insensitive, and the configuration may
                        // have been given in capitals)
                        let is_proto = matches!(prim::bech32_decode(&recipient), Some((h, _, _)) if h.to_lowercase() == sc.cfg_prefix(pre).to_lowercase());
                        let is_native = matches!(prim::bech32_decode(&recipient), Some((h, _, _)) if h.to_lowercase() == sc.cfg_native_prefix(pre).to_lowercase());
                        let to_native = if is_proto && is_native { flag } else { is_native };
                        if mint_to.is_none() && !plain_sender {
                            v.push(Viol { prop: "C03", what: "stake from a non-plain account without mint_to succeeded".into() });
                        }
                        if !is_proto && !is_native {
                            v.push(Viol { prop: "C03", what: format!("stake to an address of neither chain succeeded: {recipient}") });
                        }
                        // who ended up with LST?
                        let mut deltas: Vec<(String, i128)> = vec![];
                        let mut keys: BTreeSet<String> = BTreeSet::new();
                        for ((a, d), _) in pre_w.bank.iter().chain(sc.w.bank.iter()) {
                            if d == t {
                                keys.insert(a.clone());
                            }
                        }
                        for a in keys {
                            let d = sc.w.bal(&a, t) as i128 - pre_w.bal(&a, t) as i128;
                            if d != 0 {
                                deltas.push((a, d));
                            }
                        }
                        let lst_sends: Vec<(String, u128)> = res.events.iter().filter_map(|e| if let Ev::IbcSend { denom, amount, receiver, sender, .. } = e { if denom == t && sender == q { Some((receiver.clone(), *amount)) } else { None } } else { None }).collect();
                        if to_native {
                            let esc = World::escrow_addr(&pre.channel());
                            if lst_sends.len() != 1 || lst_sends[0].0 != recipient || lst_sends[0].1 != total_minted {
                                v.push(Viol { prop: "C03", what: format!("native recipient {recipient} should get one transfer of the minted {total_minted} LST; transfers seen: {lst_sends:?}") });
                            }
                            for (a, d) in &deltas {
                                if !(a == &esc && *d == total_minted as i128) {
                                    v.push(Viol { prop: "C03", what: format!("LST balance of {a} changed by {d} in a stake for native recipient (minted {total_minted})") });
                                }
                            }
                            *self.lst_owed_native.entry(recipient.clone()).or_insert(0) += total_minted;
                            self.count(&format!("stake_native:{}", regime(pre.n, pre.l)));
                        } else {
                            if !lst_sends.is_empty() {
                                v.push(Viol { prop: "C03", what: format!("protocol recipient but LST was sent over IBC: {lst_sends:?}") });
                            }
                            let ok = deltas.len() == 1 && deltas[0].0 == recipient && deltas[0].1 == total_minted as i128;
                            if !ok {
                                v.push(Viol { prop: "C03", what: format!("protocol recipient {recipient} should receive exactly {total_minted}; LST balance changes: {deltas:?}") });
                            }
                            self.count(&format!("stake_proto:{}", regime(pre.n, pre.l)));
                        }
                        self.seen("C03", format!("stake|{}|{}|{}|{}|{}", regime(pre.n, pre.l), to_native, is_proto && is_native, mag(paid_s), mint_to.is_some()));
                    }
                }
            }
            if is_submit && res.ok {
                let burned: u128 = res.events.iter().map(|e| if let Ev::TfBurn { denom, amount, .. } = e { if denom == t { *amount } else { 0 } } else { 0 }).sum();
                let done = post.batches.iter().find(|b| b.id == pre.pending.id);
                if self.on("C03") {
                    if burned != pre.pending.total || pre.l.checked_sub(post.l) != Some(burned) {
                        v.push(Viol { prop: "C03", what: format!("submit burned {burned}, batch total {}, LST total {} -> {}", pre.pending.total, pre.l, post.l) });
                    }
                    self.seen("C03", format!("submit|{}|{}|{}", regime(pre.n, pre.l), mag(burned), pre.pending.count.min(4)));
                }
                if self.on("C04") {
                    let rf = prim::mul_div_floor(pre.n, pre.pending.total, pre.l);
                    let exp = done.map(|b| b.expected);
                    if rf.is_none() || exp != rf {
                        v.push(Viol { prop: "C04", what: format!("submit set aside {:?}, reference floor({}*{}/{}) = {:?}", exp, pre.n, pre.pending.total, pre.l, rf) });
                    }
                    if !ge_prod(post.n, pre.l, pre.n, post.l) {
                        v.push(Viol { prop: "C04", what: format!("submit lowered the redemption rate: {}/{} -> {}/{}", pre.n, pre.l, post.n, post.l) });
                    }
                    self.seen("C04", format!("submit|{}|{}|{}", regime(pre.n, pre.l), mag(pre.pending.total), mag(pre.n)));
                }
            }
        }

        if self.on("C03") {
            // every native recipient ends up with exactly what was minted for it: delivered vouchers
            // + transfers in flight + refunded transfers awaiting re-send
            let nd = format!("voucher/{t}");
            for (r, owed) in &self.lst_owed_native {
                let mut have = sc.w.nbal(r, &nd);
                for p in sc.w.packets.values() {
                    if &p.sender == q && &p.denom == t && &p.receiver == r {
                        match p.status {
                            PStatus::InFlight => have += p.amount,
                            PStatus::ErrAcked | PStatus::TimedOut => {
                                if !self.consumed.contains(&(p.channel.clone(), p.seq)) {
                                    have += p.amount
                                }
                            }
                            PStatus::Acked => {}
                        }
                    }
                }
                if have != *owed {
                    v.push(Viol { prop: "C03", what: format!("native recipient {r} was minted {owed} LST in total but holds / is owed {have} (delivered + in flight + refunded awaiting re-send) after {kind}") });
                    break;
                }
            }
        }
        // ---------------- C05 (+ C17 request index)
        {
            if res.ok && is_unstake {
                let r = self.reqs.entry((pre.pending.id, op_sender.clone())).or_default();
                r.amount += paid_t;
                self.count("unstake_request");
            }
            if is_withdraw {
                let b = msg.get("withdraw").map(|m| vu64(m, "batch_id")).unwrap_or(0);
                let key = (b, op_sender.clone());
                let open = self.reqs.get(&key).map(|r| !r.withdrawn).unwrap_or(false);
                let bo = pre.batches.iter().find(|x| x.id == b);
                if res.ok {
                    let sends: Vec<(String, u128)> = res.events.iter().filter_map(|e| if let Ev::BankSend { from, to, denom, amount } = e { if from == q && denom == s { Some((to.clone(), *amount)) } else { None } } else { None }).collect();
                    if self.on("C05") {
                        if !open {
                            v.push(Viol { prop: "C05", what: format!("withdraw from batch {b} by {op_sender} succeeded without an open request (paid {sends:?})") });
                        }
                        match bo {
                            Some(bo) if bo.status == "received" => {
                                let own = self.reqs.get(&key).map(|r| r.amount).unwrap_or(0);
                                let want = prim::mul_div_floor(bo.received, own, bo.total);
                                if sends.len() != 1 || sends[0].0 != op_sender || Some(sends[0].1) != want {
                                    v.push(Viol { prop: "C05", what: format!("withdraw batch {b}: paid {sends:?}, reference floor({}*{}/{}) = {:?} to the caller only", bo.received, own, bo.total, want) });
                                }
                                self.seen("C05", format!("withdraw|{}|{}", if bo.received < bo.expected { "short" } else if bo.received == bo.expected { "exact" } else { "long" }, bo.count.min(4)));
                            }
                            _ => v.push(Viol { prop: "C05", what: format!("withdraw from batch {b} which is not received succeeded") }),
                        }
                    }
                    if self.on("C02") && open {
                        // "paid in full": the whole pro-rata entitlement, not a unit less
                        if let Some(bo) = bo {
                            if bo.status == "received" {
                                let own = self.reqs.get(&key).map(|r| r.amount).unwrap_or(0);
                                let want = prim::mul_div_floor(bo.received, own, bo.total);
                                let got: u128 = sends.iter().filter(|x| x.0 == op_sender).map(|x| x.1).sum();
                                if want.map(|w| got < w).unwrap_or(false) {
                                    v.push(Viol { prop: "C02", what: format!("entitled withdraw from batch {b} paid {got}, the entitlement floor({}*{}/{}) is {:?}", bo.received, own, bo.total, want) });
                                }
                            }
                        }
                    }
                    if let Some(r) = self.reqs.get_mut(&key) {
                        r.withdrawn = true;
                    }
                } else if self.on("C05") {
                    if !open {
                        self.count("withdraw_refused_no_claim");
                    } else if let Some(bo) = bo {
                        // the other direction: an open request in a received batch can be withdrawn by its owner,
                        // whoever that is (contract running, the share representable, no host fault)
                        let own = self.reqs.get(&key).map(|r| r.amount).unwrap_or(0);
                        if bo.status == "received" && !pre.stopped && own > 0 && prim::mul_div_floor(bo.received, own, bo.total).is_some() && !res.err.contains("sim:") && !res.bank_insufficient() {
                            v.push(Viol { prop: "C05", what: format!("withdrawal of the open request of {op_sender} ({own} of {}) from received batch {b} refused: {}", bo.total, res.err) });
                        }
                    }
                }
            }
            if self.on("C05") {
                // batch totals equal the sum of requests ever made; counts equal distinct requesters
                let mut sums: BTreeMap<u64, (u128, u64, u128)> = BTreeMap::new();
                for ((b, _), r) in &self.reqs {
                    let e = sums.entry(*b).or_insert((0, 0, 0));
                    e.0 += r.amount;
                    e.1 += 1;
                }
                for b in &post.batches {
                    let (sum, cnt, _) = sums.get(&b.id).cloned().unwrap_or((0, 0, 0));
                    if b.total != sum || b.count != cnt {
                        v.push(Viol { prop: "C05", what: format!("batch {} total {} / count {} but requests sum to {} from {} accounts", b.id, b.total, b.count, sum, cnt) });
                    }
                    let p = *self.paid.get(&b.id).unwrap_or(&0);
                    if b.status == "received" && p > b.received {
                        v.push(Viol { prop: "C05", what: format!("batch {} paid out {} > received {}", b.id, p, b.received) });
                    }
                    if b.status != "received" && p > 0 {
                        v.push(Viol { prop: "C05", what: format!("batch {} paid out {} before being received", b.id, p) });
                    }
                }
                if res.ok && is_unstake {
                    self.seen("C05", format!("unstake|{}|{}", post.pending.count.min(4), (self.reqs.get(&(pre.pending.id, op_sender.clone())).map(|r| r.amount).unwrap_or(0) > paid_t) as u8));
                }
            }
            if (self.on("C17") || self.on("C05")) && res.ok && (is_unstake || is_withdraw) {
                // the per-user index
                if let Ok(ans) = sc.qy(json!({"unstake_requests": {"user": op_sender}})) {
                    let got: BTreeSet<(u64, u128)> = ans.as_array().map(|a| a.iter().map(|r| (vu64(r, "batch_id"), vu128(r, "amount"))).collect()).unwrap_or_default();
                    let got_n = ans.as_array().map(|a| a.len()).unwrap_or(0);
                    let want: BTreeSet<(u64, u128)> = self.reqs.iter().filter(|((_, u), r)| u == &op_sender && !r.withdrawn).map(|((b, _), r)| (*b, r.amount)).collect();
                    if got != want || got_n != want.len() {
                        let p: &'static str = if self.on("C17") { "C17" } else { "C05" };
                        v.push(Viol { prop: p, what: format!("UnstakeRequests({op_sender}) = {got:?} but open requests are {want:?}") });
                    }
                    if self.on("C17") {
                        self.seen("C17", format!("index|{}|{kind}", want.len().min(4)));
                    }
                }
            }
        }

        // ---------------- C06
        if self.on("C06") {
            if !self.first_due_checked {
                self.first_due_checked = true;
                if pre.pending.id == 1 && pre.pending.status == "pending" && pre.pending.next_time_s != self.first_due {
                    v.push(Viol { prop: "C06", what: format!("the initial pending batch is due at {} but instantiation time + batch period is {}", pre.pending.next_time_s, self.first_due) });
                }
            }
            let npend = post.batches.iter().filter(|b| b.status == "pending").count();
            if npend != 1 {
                v.push(Viol { prop: "C06", what: format!("{npend} pending batches after {kind}") });
            }
            // "its batch period": the due time of a pending batch is fixed when it is opened (instantiation, or the
            // submission of its predecessor); nothing that happens while it is pending moves it
            if pre.state_ok && post.state_ok && pre.pending.status == "pending" && post.pending.id == pre.pending.id && post.pending.next_time_s != pre.pending.next_time_s {
                v.push(Viol { prop: "C06", what: format!("{kind} moved the due time of pending batch {} from {} to {} (now {})", pre.pending.id, pre.pending.next_time_s, post.pending.next_time_s, sc.w.now_s()) });
            }
            if post.pending.id == pre.pending.id && !is_submit {
                self.seen("C06", format!("due_kept|{kind}|{}|{}", (sc.w.now_s() as i128 - pre.pending.next_time_s as i128).clamp(-1, 1), pre.stopped));
            }
            let maxid = post.batches.iter().map(|b| b.id).max().unwrap_or(0);
            if post.pending.status != "pending" || post.pending.id != maxid {
                v.push(Viol { prop: "C06", what: format!("pending batch is {} ({}) but highest id is {maxid}", post.pending.id, post.pending.status) });
            }
            for (i, b) in post.batches.iter().enumerate() {
                if b.id != i as u64 + 1 {
                    v.push(Viol { prop: "C06", what: format!("batch ids not contiguous: position {i} has id {}", b.id) });
                    break;
                }
            }
            for b in &post.batches {
                if let Some((st, exp, _)) = self.last.get(&b.id) {
                    if rank(&b.status) < rank(st) || rank(&b.status) > rank(st) + 1 {
                        v.push(Viol { prop: "C06", what: format!("batch {} moved {st} -> {}", b.id, b.status) });
                    }
                    if st != "pending" && *exp != b.expected {
                        v.push(Viol { prop: "C06", what: format!("batch {} expected amount changed {exp} -> {} after submission", b.id, b.expected) });
                    }
                    if st == "submitted" && b.status == "received" {
                        // must coincide with an authenticated staker payment at or after the unbonding end
                        let due = self.last.get(&b.id).map(|x| x.2).unwrap_or(0);
                        let okhook = match op {
                            Op::Hook { native_sender, channel, .. } => is_deliver && res.ok && *native_sender == pre.staker() && *channel == pre.channel(),
                            _ => false,
                        };
                        if !okhook {
                            v.push(Viol { prop: "C06", what: format!("batch {} became received through {kind} by {op_sender}, not through a payment by the configured staker on the configured channel", b.id) });
                        }
                        if sc.w.now_s() < due {
                            v.push(Viol { prop: "C06", what: format!("batch {} received at {} before unbonding end {due}", b.id, sc.w.now_s()) });
                        }
                        if paid_s == 0 {
                            v.push(Viol { prop: "C06", what: format!("batch {} received without a staked-asset payment", b.id) });
                        }
                        self.seen("C06", format!("receive|{}", (sc.w.now_s() as i128 - due as i128).clamp(-2, 2)));
                    }
                } else if b.status != "pending" && b.id != 1 {
                    v.push(Viol { prop: "C06", what: format!("batch {} first seen as {}", b.id, b.status) });
                }
            }
            if is_submit {
                let due = pre.pending.next_time_s;
                let now = sc.w.now_s();
                let nonempty = self.reqs.keys().any(|(b, _)| *b == pre.pending.id) || pre.pending.count > 0;
                let predict = !pre.stopped && nonempty && now >= due && pre.l >= pre.pending.total;
                if predict != res.ok && !res.err.contains("sim:") {
                    v.push(Viol { prop: "C06", what: format!("submit at {now} (due {due}, requests {}, stopped {}) {} but the rule says {}: {}", pre.pending.count, pre.stopped, if res.ok { "succeeded" } else { "failed" }, if predict { "succeed" } else { "fail" }, res.err) });
                }
                if res.ok {
                    if post.pending.id != pre.pending.id + 1 || post.pending.next_time_s != now + pre.batch_period() || post.pending.total != 0 || post.pending.count != 0 {
                        v.push(Viol { prop: "C06", what: format!("after submit at {now}: new pending batch {:?}, wanted id {} due {}", post.pending, pre.pending.id + 1, now + pre.batch_period()) });
                    }
                    match post.batches.iter().find(|b| b.id == pre.pending.id) {
                        Some(b) if b.status == "submitted" && b.next_time_s == now + pre.unbonding() => {}
                        other => v.push(Viol { prop: "C06", what: format!("submitted batch after submit: {other:?}, wanted unbonding end {}", now + pre.unbonding()) }),
                    }
                }
                self.seen("C06", format!("submit|{}|{}|{}|{}", (now as i128 - due as i128).clamp(-2, 2), nonempty, pre.stopped, res.ok));
            }
            if is_deliver && !res.ok {
                self.seen("C06", format!("deliver_refused|{}", abs));
            }
            self.last = post.batches.iter().map(|b| (b.id, (b.status.clone(), b.expected, b.next_time_s))).collect();
        }

        // ---------------- C07
        if self.on("C07") {
            self.c07(sc, pre_w, pre, op, res, post, &kind, &consumed_now, &mut v);
        }

        // ---------------- C11
        if self.on("C11") {
            // the treasury of the last accepted fee section (from the message, not only from the Config query)
            if res.ok && kind == "update_config" {
                if let Some(f) = msg.get("update_config").and_then(|u| u.get("protocol_fee_config")) {
                    if !f.is_null() {
                        let want = f.get("treasury_address").and_then(|x| x.as_str()).map(|x| x.to_string());
                        if post.treasury() != want {
                            v.push(Viol { prop: "C11", what: format!("the accepted fee section sets the treasury to {want:?} but the contract keeps {:?}", post.treasury()) });
                        }
                        if post.fee_rate() != vu128(f, "dao_treasury_fee") {
                            v.push(Viol { prop: "C11", what: format!("the accepted fee section sets the rate to {} but the contract keeps {}", vu128(f, "dao_treasury_fee"), post.fee_rate()) });
                        }
                    }
                }
            }
            if is_reward {
                let rate = pre.fee_rate();
                let fee = prim::mul_div_floor(rate, paid_s, 100_000);
                let rightful = match op {
                    Op::Hook { native_sender, channel, .. } => *native_sender == pre.collector() && *channel == pre.channel(),
                    _ => false,
                };
                if res.ok {
                    match fee {
                        Some(fee) if fee <= paid_s => {
                            let net = paid_s - fee;
                            let to_tr: u128 = res.events.iter().map(|e| if let Ev::BankSend { from, to, denom, amount } = e { if from == q && denom == s && Some(to.clone()) == pre.treasury() { *amount } else { 0 } } else { 0 }).sum();
                            let other_out: u128 = res.events.iter().map(|e| if let Ev::BankSend { from, to, denom, amount } = e { if from == q && denom == s && Some(to.clone()) != pre.treasury() { *amount } else { 0 } } else { 0 }).sum();
                            if post.n != pre.n + net {
                                v.push(Viol { prop: "C11", what: format!("reward {paid_s} at rate {rate}: staked total {} -> {}, wanted +{net}", pre.n, post.n) });
                            }
                            if Some(post.rewards) != pre.rewards.checked_add(paid_s) {
                                v.push(Viol { prop: "C11", what: format!("reward counter {} -> {}, wanted +{paid_s}", pre.rewards, post.rewards) });
                            }
                            if sends_s != net {
                                v.push(Viol { prop: "C11", what: format!("reward {paid_s} fee {fee}: forwarded {sends_s}, wanted {net}") });
                            }
                            if pre.treasury().is_some() {
                                if to_tr != fee || post.fees != pre.fees {
                                    v.push(Viol { prop: "C11", what: format!("treasury configured: fee {fee} but {to_tr} paid to it and fee balance {} -> {}", pre.fees, post.fees) });
                                }
                            } else if post.fees != pre.fees + fee || to_tr + other_out != 0 {
                                v.push(Viol { prop: "C11", what: format!("no treasury: fee {fee}, fee balance {} -> {}, bank sends {}", pre.fees, post.fees, to_tr + other_out) });
                            }
                            if other_out != 0 {
                                v.push(Viol { prop: "C11", what: format!("reward paid {other_out} to an account that is not the treasury") });
                            }
                        }
                        _ => v.push(Viol { prop: "C11", what: format!("reward {paid_s} at rate {rate} succeeded although the fee exceeds the reward") }),
                    }
                    if pre.l == 0 {
                        v.push(Viol { prop: "C11", what: "reward accepted while no LST exists".into() });
                    }
                    if !rightful {
                        v.push(Viol { prop: "C11", what: "reward accepted from an account that is not the reward collector's hook account".into() });
                    }
                }
                // the other direction: a reward from the rightful collector is processed whenever LST exists
                // (contract running, fee not above the reward, no injected host fault)
                if !res.ok && rightful && !pre.stopped && pre.l > 0 && paid_s > 0 && matches!(fee, Some(f) if f <= paid_s) && pre_w.fault_submit.is_none() && pre_w.fault_nodata.is_none() && !res.err.contains("sim:")
                    // counters that cannot hold the result: refusing is the only faithful answer
                    && pre.rewards.checked_add(paid_s).is_some() && pre.n.checked_add(paid_s).is_some() && pre.fees.checked_add(paid_s).is_some()
                {
                    v.push(Viol { prop: "C11", what: format!("reward of {paid_s} from the reward collector refused although LST exists ({} LST, {} queued in the pending batch): {}", pre.l, pre.pending.total, res.err) });
                }
                self.seen("C11", format!("reward|{}|{}|{}|{}|{}|{}", rate.min(100_001), pre.treasury().is_some(), res.ok, pre.l == 0, mag(paid_s), fee.map(|f| (f == 0) as u8).unwrap_or(2)));
            }
            if is_feew {
                let a = msg.get("fee_withdraw").map(|m| vu128(m, "amount")).unwrap_or(0);
                if res.ok {
                    let sends: Vec<(String, u128)> = res.events.iter().filter_map(|e| if let Ev::BankSend { from, to, denom, amount } = e { if from == q && denom == s { Some((to.clone(), *amount)) } else { None } } else { None }).collect();
                    if a > pre.fees {
                        v.push(Viol { prop: "C11", what: format!("fee withdraw of {a} > accrued {}", pre.fees) });
                    }
                    if pre.treasury().is_none() || sends.len() != 1 || Some(sends[0].0.clone()) != pre.treasury() || sends[0].1 != a {
                        v.push(Viol { prop: "C11", what: format!("fee withdraw of {a}: sends {sends:?}, treasury {:?}", pre.treasury()) });
                    }
                    if post.fees != pre.fees - a.min(pre.fees) {
                        v.push(Viol { prop: "C11", what: format!("fee balance {} -> {} after withdrawing {a}", pre.fees, post.fees) });
                    }
                    if op_sender != sc.admin_now() {
                        // admin identity is tracked by the workload (ownership changes are not part of this profile)
                    }
                }
                self.seen("C11", format!("feew|{}|{}|{}", res.ok, pre.treasury().is_some(), if a < pre.fees { "below" } else if a == pre.fees { "at" } else { "above" }));
            }
        }

        // ---------------- C19: token-factory messages as the target chain's module sees them
        if self.on("C19") {
            for e in &res.events {
                let (url, sender, denom, amount, holder, raw, opname): (&String, &String, &String, u128, Option<&String>, &Vec<u8>, &str) = match e {
                    Ev::TfCreate { url, sender, denom, raw, .. } => (url, sender, denom, 0, None, raw, "MsgCreateDenom"),
                    Ev::TfMint { url, sender, denom, amount, to, raw } => (url, sender, denom, *amount, Some(to), raw, "MsgMint"),
                    Ev::TfBurn { url, sender, denom, amount, from, raw } => (url, sender, denom, *amount, Some(from), raw, "MsgBurn"),
                    _ => continue,
                };
                let want_url = format!("{}{}", sc.w.kind.tf_prefix(), opname);
                if url != &want_url {
                    v.push(Viol { prop: "C19", what: format!("token-factory message has type URL {url}, the target chain's module expects {want_url}") });
                }
                if sender != q || holder.map(|h| h != q).unwrap_or(false) {
                    v.push(Viol { prop: "C19", what: format!("{opname}: sender {sender} / holder {holder:?} is not the contract {q}") });
                }
                if denom != t {
                    v.push(Viol { prop: "C19", what: format!("{opname}: denom {denom}, expected {t}") });
                }
                // canonical bytes: the harness's own writer must reproduce them
                let mut enc = vec![];
                prim::put_str(&mut enc, 1, q);
                match opname {
                    "MsgCreateDenom" => prim::put_str(&mut enc, 2, t.rsplit('/').next().unwrap_or("")),
                    "MsgMint" => {
                        prim::put_bytes(&mut enc, 2, &prim::enc_coin(t, amount));
                        prim::put_str(&mut enc, 3, q);
                    }
                    _ => {
                        prim::put_bytes(&mut enc, 2, &prim::enc_coin(t, amount));
                        if sc.w.kind == ChainKind::Osmosis {
                            prim::put_str(&mut enc, 3, q);
                        }
                    }
                }
                if &enc != raw {
                    v.push(Viol { prop: "C19", what: format!("{opname}: emitted bytes are not the canonical encoding of (sender, {t}, {amount}, holder)") });
                }
                if opname == "MsgMint" && is_stake {
                    let (n0, l0) = if pre.l == 0 { (0u128, 0u128) } else { (pre.n, pre.l) };
                    let rm = if n0 == 0 { Some(paid_s) } else { prim::mul_div_floor(paid_s, l0, n0) };
                    if rm != Some(amount) {
                        v.push(Viol { prop: "C19", what: format!("MsgMint amount {amount}, reference {rm:?}") });
                    }
                }
                if opname == "MsgBurn" && is_submit && amount != pre.pending.total {
                    v.push(Viol { prop: "C19", what: format!("MsgBurn amount {amount}, batch total {}", pre.pending.total) });
                }
                self.seen("C19", format!("{opname}|{}|{}", regime(pre.n, pre.l), (amount % 7)));
                self.count(&format!("c19:{opname}"));
            }
            if res.ok && is_stake && !res.events.iter().any(|e| matches!(e, Ev::TfMint { .. })) {
                v.push(Viol { prop: "C19", what: "successful stake without a token-factory mint".into() });
            }
            if res.ok && is_submit && !res.events.iter().any(|e| matches!(e, Ev::TfBurn { .. })) {
                v.push(Viol { prop: "C19", what: "successful submission without a token-factory burn".into() });
            }
        }

        // ---------------- C15
        if self.on("C15") {
            let posts: Vec<(String, String, String, String)> = res.events.iter().filter_map(|e| if let Ev::Oracle { oracle, denom, purchase, redemption, .. } = e { Some((oracle.clone(), denom.clone(), purchase.clone(), redemption.clone())) } else { None }).collect();
            let changed = pre.n != post.n || pre.l != post.l;
            let (red, pur) = if post.l == 0 { (Some("0".to_string()), Some("0".to_string())) } else { (prim::dec18_ratio(post.n, post.l), prim::dec18_ratio(post.l, post.n)) };
            if res.ok && kind == "update_config" {
                if let Some(p) = msg.get("update_config").and_then(|u| u.get("protocol_chain_config")) {
                    if !p.is_null() {
                        self.intended_oracle = Some(p.get("oracle_address").and_then(|x| x.as_str()).map(|x| x.to_string()));
                        if post.oracle() != self.intended_oracle.clone().unwrap() {
                            v.push(Viol { prop: "C15", what: format!("the accepted protocol section sets the oracle to {:?} but the contract keeps {:?}", self.intended_oracle.clone().unwrap(), post.oracle()) });
                        }
                    }
                }
            }
            if res.ok && matches!(op, Op::Exec { contract, .. } | Op::Hook { contract, .. } if contract == q) && kind != "update_config" {
                match self.intended_oracle.clone().unwrap_or_else(|| pre.oracle()) {
                    Some(o) => {
                        if changed {
                            if posts.len() != 1 {
                                v.push(Viol { prop: "C15", what: format!("{kind} changed the totals but posted {} oracle messages", posts.len()) });
                            }
                            self.seen("C15", format!("post|{kind}|{}|{}|{}|{}", regime(pre.n, pre.l), regime(post.n, post.l), mag(post.n), pur.as_ref().map(|p| p.len()).unwrap_or(0)));
                        }
                        for p in &posts {
                            if !p.0.eq_ignore_ascii_case(&o) || &p.1 != t || Some(p.2.clone()) != pur || Some(p.3.clone()) != red {
                                v.push(Viol { prop: "C15", what: format!("{kind}: posted (denom {}, purchase {}, redemption {}) to {}, post-transaction rates are purchase {:?} redemption {:?} for {t} at oracle {o}", p.1, p.2, p.3, p.0, pur, red) });
                            }
                        }
                    }
                    None => {
                        if !posts.is_empty() || res.events.iter().any(|e| matches!(e, Ev::WasmExec { .. })) {
                            v.push(Viol { prop: "C15", what: format!("{kind}: no oracle configured but a contract call was dispatched") });
                        }
                        if changed {
                            self.seen("C15", format!("nopost|{kind}|{}|{}", regime(post.n, post.l), mag(post.n)));
                        }
                    }
                }
            }
            if post.l > 0 && post.n > 0 {
                if Some(post.rate.clone()) != pur {
                    v.push(Viol { prop: "C15", what: format!("State.rate {} != purchase rate {:?} of totals {}/{}", post.rate, pur, post.n, post.l) });
                }
            }
        }
        v
    }

    #[allow(clippy::too_many_arguments)]
    fn c07(&mut self, sc: &Sc, pre_w: &World, pre: &Obs, op: &Op, res: &TxResult, post: &Obs, kind: &str, consumed_now: &[QObs], v: &mut Vec<Viol>) {
        let q = &sc.q;
        let ch = pre.channel();
        // (i) every submitted packet is recorded in the same transaction; reply queue empty
        if post.reply_queue != 0 {
            v.push(Viol { prop: "C07", what: format!("{} pending replies left after {kind}", post.reply_queue) });
        }
        // (ii) contract view == packet store
        for p in sc.w.packets.values() {
            if &p.sender != q || p.channel != post.channel() {
                continue;
            }
            let listed = post.queue.iter().find(|x| x.seq == p.seq);
            let consumed = self.consumed.contains(&(p.channel.clone(), p.seq));
            let want = match p.status {
                PStatus::InFlight => if consumed { None } else { Some("sent") },
                PStatus::Acked => None,
                PStatus::ErrAcked => if consumed { None } else { Some("ack_failure") },
                PStatus::TimedOut => if consumed { None } else { Some("timed_out") },
            };
            match (want, listed) {
                (None, None) => {}
                (Some(st), Some(l)) if l.status == st && l.amount == p.amount && l.denom == p.denom && l.receiver == p.receiver => {}
                (w, l) => v.push(Viol { prop: "C07", what: format!("packet {} ({} {} to {}, {:?}) should be listed as {:?}, queue has {:?} after {kind}", p.seq, p.amount, p.denom, p.receiver, p.status, w, l) }),
            }
        }
        for l in &post.queue {
            if !sc.w.packets.contains_key(&(post.channel(), l.seq)) {
                v.push(Viol { prop: "C07", what: format!("queue lists sequence {} which was never sent", l.seq) });
            }
        }
        // (iii) recoveries
        if kind == "recover_pending_ibc_transfers" {
            let sends: Vec<(String, String, u128, u64)> = res.events.iter().filter_map(|e| if let Ev::IbcSend { sender, receiver, denom, amount, seq, .. } = e { if sender == q { Some((receiver.clone(), denom.clone(), *amount, *seq)) } else { None } } else { None }).collect();
            let m = op.msg_value();
            let rm = m.get("recover_pending_ibc_transfers").cloned().unwrap_or(Value::Null);
            let forced = rm.get("selected_packets").map(|x| !x.is_null()).unwrap_or(false);
            let paginated = rm.get("paginated").and_then(|x| x.as_bool()).unwrap_or(false);
            let want_receiver = rm.get("receiver").and_then(|x| x.as_str()).map(|x| x.to_string()).unwrap_or_else(|| pre.staker());
            let (caller, _) = match op {
                Op::Exec { sender, .. } => (sender.clone(), ()),
                _ => (String::new(), ()),
            };
            if res.ok {
                if sends.len() != 1 {
                    v.push(Viol { prop: "C07", what: format!("recovery sent {} transfers", sends.len()) });
                } else {
                    let (recv, denom, amount, newseq) = sends[0].clone();
                    let sum: u128 = consumed_now.iter().map(|p| p.amount).sum();
                    if consumed_now.is_empty() || amount != sum {
                        v.push(Viol { prop: "C07", what: format!("recovery re-sent {amount} but consumed refundable packets {:?} sum to {sum}", consumed_now.iter().map(|p| (p.seq, p.amount)).collect::<Vec<_>>()) });
                    }
                    for p in consumed_now {
                        if p.receiver != recv || p.denom != denom {
                            v.push(Viol { prop: "C07", what: format!("recovery to {recv} in {denom} consumed packet {} of {} {} for {}", p.seq, p.amount, p.denom, p.receiver) });
                        }
                    }
                    if recv != want_receiver {
                        v.push(Viol { prop: "C07", what: format!("recovery for receiver {want_receiver} re-sent to {recv}") });
                    }
                    if !post.queue.iter().any(|x| x.seq == newseq && x.status == "sent" && x.amount == amount) {
                        v.push(Viol { prop: "C07", what: format!("re-sent transfer {newseq} is not tracked") });
                    }
                    // packets that were in flight (or of other receivers) must not have been touched
                    for p in &pre.queue {
                        if p.status == "sent" && !post.queue.iter().any(|x| x == p) {
                            if !(forced && caller == sc.admin_now()) {
                                v.push(Viol { prop: "C07", what: format!("in-flight packet {} disappeared in a recovery by {caller}", p.seq) });
                            }
                        }
                    }
                    if !forced {
                        // unforced: consumes exactly the refundable packets of that receiver (first page if paginated)
                        let elig: Vec<&QObs> = pre.queue.iter().filter(|p| p.receiver == want_receiver && (p.status == "ack_failure" || p.status == "timed_out")).collect();
                        let lim = if paginated { 10 } else { usize::MAX };
                        let want: Vec<u64> = elig.iter().take(lim).map(|p| p.seq).collect();
                        let got: Vec<u64> = consumed_now.iter().map(|p| p.seq).collect();
                        if want != got {
                            v.push(Viol { prop: "C07", what: format!("unforced recovery for {want_receiver} consumed {got:?}, eligible were {want:?}") });
                        }
                    }
                    if forced && caller != sc.admin_now() {
                        v.push(Viol { prop: "C07", what: format!("forced recovery by non-admin {caller} succeeded") });
                    }
                    self.seen("C07", format!("recover|{forced}|{paginated}|{}|{}|{}", rm.get("receiver").map(|x| !x.is_null()).unwrap_or(false), consumed_now.len().min(3), denom == sc.t));
                }
            } else if pre_w.same_state(&sc.w).is_some() {
                v.push(Viol { prop: "C07", what: "failed recovery changed state".into() });
            } else if !forced && pre_w.fault_submit.is_none() && pre_w.fault_nodata.is_none() && !res.err.contains("sim:") {
                // the other direction: refundable transfers of that receiver in one denom CAN be re-sent by anybody
                let elig: Vec<&QObs> = pre.queue.iter().filter(|p| p.receiver == want_receiver && (p.status == "ack_failure" || p.status == "timed_out")).collect();
                let page: Vec<&&QObs> = elig.iter().take(if paginated { 10 } else { usize::MAX }).collect();
                let receiver_ok = matches!(prim::bech32_decode(&want_receiver), Some((h, _, _)) if h == pre.native_prefix());
                if !page.is_empty() && page.iter().all(|p| p.denom == page[0].denom) && receiver_ok && page.iter().all(|p| sc.w.open_channels.contains(&pre.channel())) {
                    v.push(Viol { prop: "C07", what: format!("{} refundable transfer(s) of {want_receiver} in one denom are recorded but the recovery by {caller} was refused: {}", page.len(), res.err) });
                }
            }
        }
        // (v) stray acknowledgements change nothing
        if let Op::Sudo { contract, msg } = op {
            if contract == q {
                let m: Value = serde_json::from_str(msg).unwrap_or(Value::Null);
                let inner = m.get("ibc_lifecycle_complete").cloned().unwrap_or(Value::Null);
                let body = inner.get("ibc_ack").or_else(|| inner.get("ibc_timeout")).cloned().unwrap_or(Value::Null);
                let c = vs(&body, "channel");
                let sq = vu64(&body, "sequence");
                let tracked_sent = c == ch && pre.queue.iter().any(|p| p.seq == sq);
                if !tracked_sent {
                    if let Some(d) = pre_w.same_state(&sc.w) {
                        v.push(Viol { prop: "C07", what: format!("stray acknowledgement ({c}, {sq}) changed state: {d}") });
                    }
                    if !res.ok {
                        v.push(Viol { prop: "C07", what: format!("stray acknowledgement ({c}, {sq}) made the callback fail: {}", res.err) });
                    }
                    self.seen("C07", format!("stray|{}|{}", c == ch, inner.get("ibc_ack").is_some()));
                }
            }
        }
        // relayed outcomes on tracked packets
        if let Op::Relay { channel, seq, outcome } = op {
            if !res.ok && !res.err.contains("sim:harness") && !res.err.contains("sim:ibc:packet already") && !res.err.contains("sim:ibc:no such packet") {
                v.push(Viol { prop: "C07", what: format!("acknowledgement callback for ({channel}, {seq}) failed: {}", res.err) });
            }
            if res.ok {
                self.seen("C07", format!("relay|{outcome}|{}", Self::abstract_state(pre, sc)));
            }
        }
        // (vi) injected submission failure => nothing persists
        if pre_w.fault_nodata.is_some() && matches!(op, Op::Exec { .. } | Op::Hook { .. }) && res.ok {
            // a transfer whose response came back without data cannot be tracked: the operation must not commit
            let n = res.events.iter().filter(|e| matches!(e, Ev::IbcSend { .. })).count() as u32;
            if n > pre_w.fault_nodata.unwrap() {
                v.push(Viol { prop: "C07", what: format!("{kind} committed although the transfer's response carried no sequence number") });
            }
        }
        if pre_w.fault_submit.is_some() && matches!(op, Op::Exec { .. } | Op::Hook { .. }) {
            let hit = res.err.contains("submit-fault") || !res.ok;
            if res.ok && sc.w.packets.len() < pre_w.packets.len() + 1 {
                // the faulted index was not reached: nothing to check
            } else if hit {
                let mut cmp = pre_w.clone();
                cmp.fault_submit = None;
                // a failed hook delivery refunds the native sender, which same_state covers
                if let Some(d) = cmp.same_state(&sc.w) {
                    v.push(Viol { prop: "C07", what: format!("transfer submission failed but state changed: {d}") });
                }
                if res.err.contains("submit-fault") {
                    self.seen("C07", format!("submitfault|{kind}"));
                }
            } else if res.ok {
                // did a transfer fail to submit and the transaction still commit?
                let sent = res.events.iter().filter(|e| matches!(e, Ev::IbcSend { .. })).count() as u32;
                let failed_reply = res.events.iter().any(|e| matches!(e, Ev::Reply { ok: false, .. }));
                if failed_reply {
                    v.push(Viol { prop: "C07", what: format!("{kind} committed although a transfer could not be submitted ({sent} transfers went out)") });
                }
            }
        }
        if res.ok && res.events.iter().any(|e| matches!(e, Ev::Reply { ok: false, .. })) {
            v.push(Viol { prop: "C07", what: format!("{kind} committed although a transfer could not be submitted") });
        }
        // every transfer carries a callback memo naming the contract and a timeout
        for e in &res.events {
            if let Ev::IbcSend { sender, memo, timeout_ns, seq, .. } = e {
                if sender == q {
                    let cb = serde_json::from_str::<Value>(memo).ok().and_then(|m| m.get("ibc_callback").and_then(|c| c.as_str()).map(|x| x.to_string()));
                    if cb.as_deref() != Some(q.as_str()) || *timeout_ns == 0 {
                        v.push(Viol { prop: "C07", what: format!("transfer {seq} without callback memo / timeout: memo {memo}, timeout {timeout_ns}") });
                    }
                    if !post.queue.iter().any(|x| x.seq == *seq) {
                        v.push(Viol { prop: "C07", what: format!("transfer {seq} not recorded in the transaction that sent it") });
                    }
                }
            }
        }
    }
}

impl Sc {
    pub fn cfg_prefix(&self, o: &Obs) -> String {
        o.cfg_str("protocol_chain_config", "account_address_prefix")
    }
    pub fn cfg_native_prefix(&self, o: &Obs) -> String {
        o.cfg_str("native_chain_config", "account_address_prefix")
    }
    /// the history workloads of the conservation profiles never hand over ownership
    pub fn admin_now(&self) -> String {
        self.admin.clone()
    }
}
