//! Hostile message generator for C16: every entry point of both contracts, valid / mutated /
//! unauthorized / malformed messages from every kind of principal, inside the property's bounds
//! (amounts <= 10^27, resume rates within [10^-3, 10^3]).
use crate::obs::*;
use crate::prim::Rng;
use crate::scenario::*;
use crate::world::*;
use serde_json::{json, Value};

pub const MAX_AMT: u128 = 1_000_000_000_000_000_000_000_000_000; // 10^27

fn amt(rng: &mut Rng) -> u128 {
    match rng.below(8) {
        0 => 0,
        1 => 1,
        2 => MAX_AMT,
        3 => MAX_AMT - 1,
        4 => 10u128.pow(rng.range(0, 27) as u32),
        5 => rng.below(1000) as u128,
        _ => rng.below128(MAX_AMT),
    }
}

fn junk_str(rng: &mut Rng, sc: &Sc) -> String {
    match rng.below(12) {
        0 => String::new(),
        1 => "abc".into(),
        2 => "x".repeat(if rng.chance(1, 6) { *rng.pick(&[65_535usize, 65_536, 70_000, 200_000]) } else { rng.range(1, 300) as usize }),
        3 => sc.users[0].to_uppercase(),
        4 => addr20("cosmos", "stranger"),
        5 => sc.users[0][..sc.users[0].len() - 1].to_string(),
        6 => format!("{}1", sc.cfg.prefix),
        7 => {
            // checksum-valid bech32 whose 5-bit payload does not regroup into whole bytes (one group, seven
            // groups with non-zero padding bits, ...), under either chain's prefix
            let n = *rng.pick(&[0usize, 1, 2, 7, 9, 33]);
            let data: Vec<u8> = (0..n).map(|_| (rng.below(32) as u8) | 1).collect();
            crate::prim::bech32_encode_5bit(if rng.chance(1, 2) { &sc.cfg.prefix } else { &sc.cfg.native_prefix }, &data)
        }
        8 => "\u{00e9}\u{4e2d}\u{1F600}".into(),
        9 => addr32(&sc.cfg.native_prefix, "n32"),
        10 => sc.native_users[0].clone(),
        _ => sc.users[1].clone(),
    }
}

fn principal(rng: &mut Rng, sc: &Sc, o: &Obs) -> String {
    match rng.below(12) {
        0 | 1 | 2 => sc.admin.clone(),
        3 => rng.pick(&sc.users).clone(),
        4 => sc.contract_user.clone(),
        5 => hook_sender(&o.channel(), &o.staker(), &sc.w.prefix),
        6 => hook_sender(&o.channel(), &o.collector(), &sc.w.prefix),
        7 => sc.q.clone(),
        8 => sc.oracle.clone().unwrap_or_else(|| sc.users[0].clone()),
        9 => sc.treasury.clone().unwrap_or_else(|| sc.users[0].clone()),
        10 => sc.monitors.first().cloned().unwrap_or_else(|| sc.users[0].clone()),
        _ => addr20(&sc.w.prefix, &format!("rnd{}", rng.below(5))),
    }
}

fn prefix_pool(rng: &mut Rng, sc: &Sc) -> String {
    match rng.below(8) {
        0 => "p".repeat(83),
        1 => "averyveryveryveryveryveryveryveryveryveryveryverylongprefix".into(),
        2 => "OSMO".into(),
        3 => "a".into(),
        4 => "x1y".into(),
        5 => sc.cfg.native_prefix.clone(),
        _ => sc.cfg.prefix.clone(),
    }
}

pub fn staking_msg(rng: &mut Rng, sc: &Sc, o: &Obs) -> (Value, Vec<(String, u128)>) {
    let s = sc.s.clone();
    let t = sc.t.clone();
    let funds = |rng: &mut Rng, d: &str| -> Vec<(String, u128)> {
        match rng.below(8) {
            0 => vec![],
            1 => vec![("uother".to_string(), amt(rng).max(1))],
            2 => vec![(s.clone(), amt(rng).max(1)), (t.clone(), amt(rng).max(1))],
            _ => vec![(d.to_string(), amt(rng))],
        }
    };
    let opt_str = |rng: &mut Rng| -> Value {
        if rng.chance(1, 3) {
            Value::Null
        } else {
            json!(junk_str(rng, sc))
        }
    };
    match rng.below(22) {
        0 | 1 | 2 => {
            let e = match rng.below(4) {
                0 => Value::Null,
                1 => json!("0"),
                2 => json!(amt(rng).to_string()),
                _ => json!(u128::MAX.to_string()),
            };
            let f = funds(rng, &s);
            (json!({"liquid_stake": {"mint_to": opt_str(rng), "transfer_to_native_chain": if rng.chance(1, 2) { json!(rng.chance(1, 2)) } else { Value::Null }, "expected_mint_amount": e}}), f)
        }
        3 | 4 => (json!({"liquid_unstake": {}}), funds(rng, &t)),
        5 => (json!({"submit_batch": {}}), if rng.chance(1, 4) { funds(rng, &s) } else { vec![] }),
        6 | 7 => {
            let b = match rng.below(4) {
                0 => 0,
                1 => u64::MAX,
                2 => o.pending.id,
                _ => rng.below(o.pending.id + 2),
            };
            (json!({"withdraw": {"batch_id": b}}), vec![])
        }
        8 => (json!({"add_validator": {"new_validator": if rng.chance(1, 2) { addr20(&sc.cfg.val_prefix, "hv") } else { junk_str(rng, sc) }}}), vec![]),
        9 => (json!({"remove_validator": {"validator": if rng.chance(1, 2) { sc.validators[0].clone() } else { junk_str(rng, sc) }}}), vec![]),
        10 => (json!({"transfer_ownership": {"new_owner": if rng.chance(1, 2) { sc.users[0].clone() } else { junk_str(rng, sc) }}}), vec![]),
        11 => (if rng.chance(1, 2) { json!({"accept_ownership": {}}) } else { json!({"revoke_ownership_transfer": {}}) }, vec![]),
        12 | 13 => {
            // config updates with values that validation accepts (and some it does not)
            let big64 = |rng: &mut Rng| -> u64 { *rng.pick(&[0u64, 1, 60, 86_400, u64::MAX, u64::MAX - 1, 1u64 << 63]) };
            let big128 = |rng: &mut Rng| -> u128 { *rng.pick(&[0u128, 1, 10_000, 100_000, 100_001, u128::MAX, 1u128 << 127, 1u128 << 64]) };
            let mut m = serde_json::Map::new();
            if rng.chance(1, 2) {
                let np = if rng.chance(1, 4) { prefix_pool(rng, sc) } else { sc.cfg.native_prefix.clone() };
                let vp = if rng.chance(1, 6) { prefix_pool(rng, sc) } else { format!("{np}valoper") };
                let low = np.to_lowercase();
                let vlow = vp.to_lowercase();
                m.insert(
                    "native_chain_config".into(),
                    json!({"account_address_prefix": np, "validator_address_prefix": vp, "token_denom": if rng.chance(1, 8) { junk_str(rng, sc) } else { "utia".into() },
                        "validators": (0..rng.below(3)).map(|i| addr20(&vlow, &format!("hv{i}"))).collect::<Vec<_>>(), "unbonding_period": big64(rng),
                        "staker_address": if rng.chance(1, 8) { junk_str(rng, sc) } else { addr20(&low, &format!("staker{}", sc.cfg.salt)) },
                        "reward_collector_address": addr20(&low, &format!("collector{}", sc.cfg.salt))}),
                );
            }
            if rng.chance(1, 2) {
                let pp = if rng.chance(1, 3) { prefix_pool(rng, sc) } else { sc.cfg.prefix.clone() };
                let low = pp.to_lowercase();
                let ch = match rng.below(8) {
                    6 => rng.pick(&["channel", "channel5", "channel_7", "channels-1", "channe", "channel-"]).to_string(),
                    0 => "channel-0".to_string(),
                    1 => format!("channel-{}", u64::MAX),
                    2 => "channel-".to_string(),
                    3 => "channel-+5".to_string(),
                    _ => sc.cfg.channel.clone(),
                };
                m.insert(
                    "protocol_chain_config".into(),
                    json!({"account_address_prefix": pp, "ibc_token_denom": if rng.chance(1, 5) { weird_denom(rng) } else { sc.s.clone() }, "ibc_channel_id": ch,
                        "minimum_liquid_stake_amount": big128(rng).to_string(), "oracle_address": if rng.chance(1, 2) { Value::Null } else { json!(addr32(&low, "oracle-x")) }}),
                );
            }
            if rng.chance(1, 2) {
                m.insert("protocol_fee_config".into(), json!({"dao_treasury_fee": big128(rng).to_string(), "treasury_address": if rng.chance(1, 2) { Value::Null } else { json!(sc.treasury.clone().unwrap_or_else(|| sc.users[0].clone())) }}));
            }
            if rng.chance(1, 3) {
                m.insert("monitors".into(), json!([sc.users[0], sc.users[1]]));
            }
            if rng.chance(1, 3) {
                m.insert("batch_period".into(), json!(big64(rng)));
            }
            (json!({ "update_config": Value::Object(m) }), vec![])
        }
        14 => (json!({"receive_rewards": {}}), funds(rng, &s)),
        15 => (json!({"receive_unstaked_tokens": {"batch_id": rng.below(o.pending.id + 2)}}), funds(rng, &s)),
        16 => (json!({"circuit_breaker": {}}), vec![]),
        17 => {
            // within the stated bounds: totals <= 10^27, rate within [1e-3, 1e3] (or an empty pool)
            let l = match rng.below(4) {
                0 => 0,
                1 => o.l,
                _ => amt(rng),
            };
            let n = if l == 0 {
                if rng.chance(1, 2) { 0 } else { amt(rng) }
            } else {
                let lo = (l / 1000).max(1);
                let hi = l.saturating_mul(1000).min(MAX_AMT);
                if hi <= lo { lo } else { lo + rng.below128(hi - lo + 1) }
            };
            (json!({"resume_contract": {"total_native_token": n.to_string(), "total_liquid_stake_token": l.to_string(), "total_reward_amount": amt(rng).to_string()}}), vec![])
        }
        18 | 19 => {
            let sel = match rng.below(4) {
                0 => Value::Null,
                1 => json!([]),
                2 => json!(o.queue.iter().map(|p| p.seq).collect::<Vec<_>>()),
                _ => json!([rng.below(100), u64::MAX]),
            };
            (json!({"recover_pending_ibc_transfers": {"paginated": if rng.chance(1, 2) { json!(rng.chance(1, 2)) } else { Value::Null }, "selected_packets": sel, "receiver": if rng.chance(1, 2) { Value::Null } else { json!(junk_str(rng, sc)) }}}), vec![])
        }
        20 => (json!({"fee_withdraw": {"amount": amt(rng).to_string()}}), vec![]),
        _ => (json!({"unknown_variant": {"x": 1}}), vec![]),
    }
}

pub fn mangle(rng: &mut Rng, txt: &str) -> String {
    let mut b = txt.as_bytes().to_vec();
    if b.is_empty() {
        return "{".into();
    }
    match rng.below(5) {
        0 => {
            b.truncate(rng.below(b.len() as u64) as usize);
        }
        1 => {
            let i = rng.below(b.len() as u64) as usize;
            b[i] = rng.next() as u8;
        }
        2 => {
            let i = rng.below(b.len() as u64) as usize;
            b.insert(i, b"{}[]\":,-0"[rng.below(9) as usize]);
        }
        3 => return txt.replace(':', ":-"),
        _ => return format!("[{txt}]"),
    }
    String::from_utf8_lossy(&b).to_string()
}

pub fn next(rng: &mut Rng, sc: &Sc, o: &Obs) -> Vec<Op> {
    let sender = principal(rng, sc, o);
    match rng.below(20) {
        0..=9 => {
            let (m, funds) = staking_msg(rng, sc, o);
            let txt = if rng.chance(1, 12) { mangle(rng, &m.to_string()) } else { m.to_string() };
            let mint: Vec<(String, u128)> = funds.clone();
            if rng.chance(1, 2) {
                // live: state evolves (config extremes become part of the reachable state)
                let mut ops: Vec<Op> = mint.iter().map(|(d, a)| Op::BankMint { addr: sender.clone(), denom: d.clone(), amount: *a }).collect();
                ops.push(Op::Exec { sender, contract: sc.q.clone(), msg: txt, funds });
                ops
            } else {
                vec![Op::ExecProbe { sender, contract: sc.q.clone(), msg: txt, funds, mint }]
            }
        }
        10 | 11 => {
            let q = match rng.below(12) {
                0 => json!({"config": {}}),
                1 => json!({"state": {}}),
                2 => json!({"batch": {"id": rng.below(o.pending.id + 3)}}),
                3 => json!({"batches": {"start_after": if rng.chance(1, 2) { json!(if rng.chance(1, 5) { u64::MAX } else { rng.below(o.pending.id + 3) }) } else { Value::Null }, "limit": *rng.pick(&[json!(null), json!(0), json!(1), json!(u32::MAX)]), "status": *rng.pick(&[json!(null), json!("Pending"), json!("Submitted"), json!("Received"), json!("bogus")])}}),
                4 => json!({"batches_by_ids": {"ids": [0, 1, rng.below(10), u64::MAX]}}),
                5 => json!({"pending_batch": {}}),
                // (any client can put any string here: also a very long one)
                6 => json!({"unstake_requests": {"user": match rng.below(5) { 0 | 1 => sc.users[0].clone(), 2 => "a".repeat(*rng.pick(&[255usize, 256, 65_535, 65_536, 70_000])), _ => junk_str(rng, sc) }}}),
                7 => json!({"all_unstake_requests": {"start_after": if rng.chance(1, 2) { json!(*rng.pick(&[0u64, 1, 2, 3, 4, u64::MAX, u64::MAX - 1])) } else { Value::Null }, "limit": *rng.pick(&[json!(null), json!(0), json!(2), json!(u32::MAX)])}}),
                8 => json!({"all_unstake_requests_v2": {"start_after": if rng.chance(1, 2) { json!(*rng.pick(&[0u64, 1, 2, 3, 4, u64::MAX, u64::MAX - 1])) } else { Value::Null }, "limit": *rng.pick(&[json!(null), json!(0), json!(2), json!(u32::MAX)])}}),
                9 => json!({"ibc_queue": {"start_after": if rng.chance(1, 2) { json!(if rng.chance(1, 5) { u64::MAX } else { rng.below(50) }) } else { Value::Null }, "limit": *rng.pick(&[json!(null), json!(0), json!(3), json!(u32::MAX)])}}),
                10 => json!({"ibc_reply_queue": {"start_after": Value::Null, "limit": *rng.pick(&[json!(null), json!(0)])}}),
                _ => json!({"nonsense": 1}),
            };
            let txt = if rng.chance(1, 10) { mangle(rng, &q.to_string()) } else { q.to_string() };
            vec![Op::QueryProbe { contract: sc.q.clone(), msg: txt }]
        }
        12 => {
            let ch = if rng.chance(1, 2) { o.channel() } else { format!("channel-{}", rng.below(3)) };
            let seq = if rng.chance(1, 2) && !o.queue.is_empty() { rng.pick(&o.queue).seq } else { rng.next() >> rng.below(64) };
            let m = if rng.chance(1, 2) {
                json!({"ibc_lifecycle_complete": {"ibc_ack": {"channel": ch, "sequence": seq, "ack": if rng.chance(1, 3) { long_ack(rng) } else { junk_str(rng, sc) }, "success": rng.chance(1, 2)}}})
            } else {
                json!({"ibc_lifecycle_complete": {"ibc_timeout": {"channel": ch, "sequence": seq}}})
            };
            // only as a probe on a clone: an acknowledgement for a tracked in-flight packet that did
            // not really complete would desynchronise the simulator's packet store
            let txt = if rng.chance(1, 10) { mangle(rng, &m.to_string()) } else { m.to_string() };
            vec![Op::SudoProbe { contract: sc.q.clone(), msg: txt }]
        }
        13 => {
            let id = match rng.below(3) {
                0 => 0,
                1 => sc.w.now_ns,
                _ => rng.next(),
            };
            let data = match rng.below(4) {
                0 => None,
                1 => Some("0801".to_string()),
                2 => { let k = rng.below(12) as usize; Some(crate::prim::hex(&rng.bytes(k))) }
                _ => Some(String::new()),
            };
            vec![Op::ReplyProbe { contract: sc.q.clone(), id, ok: rng.chance(2, 3), data_hex: data, err: "boom".into() }]
        }
        14 => {
            let ver = rng.pick(&["0.4.18", "0.4.20", "1.0.0", "1.0.1", "1.1.0", "2.0.0", "garbage", ""]).to_string();
            let name = rng.pick(&["staking", "treasury", "other"]).to_string();
            let m = match rng.below(4) {
                0 => json!({"v0_4_18_to_v0_4_20": {"send_fees_to_treasury": rng.chance(1, 2)}}),
                1 => json!({"v0_4_20_to_v1_0_0": {"native_account_address_prefix": prefix_pool(rng, sc), "native_validator_address_prefix": prefix_pool(rng, sc), "native_token_denom": "utia", "protocol_account_address_prefix": prefix_pool(rng, sc)}}),
                2 => json!({"v1_0_0_to_v1_1_0": {}}),
                _ => json!({}),
            };
            let target = if rng.chance(1, 4) && sc.treasury.is_some() { sc.treasury.clone().unwrap() } else { sc.q.clone() };
            vec![Op::MigrateProbe { contract: target, name, version: ver, msg: m.to_string() }]
        }
        15 => {
            // instantiate with extreme but well-formed values, or corrupted
            let mut cfg = sc.cfg.clone();
            cfg.batch_period = *rng.pick(&[0u64, 1, u64::MAX, u64::MAX - 1_700_000_000, 86_400]);
            cfg.unbonding = *rng.pick(&[0u64, u64::MAX, 1_209_600]);
            cfg.fee_rate = *rng.pick(&[0u128, 100_000, u128::MAX]);
            cfg.min_stake = *rng.pick(&[0u128, 1, u128::MAX]);
            let m = Sc::instantiate_msg(&cfg, &sc.staker, &sc.collector, &sc.validators, &sc.monitors, sc.treasury.as_deref(), sc.oracle.as_deref(), &if rng.chance(1, 4) { weird_denom(rng) } else { sc.s.clone() });
            let txt = if rng.chance(1, 6) { mangle(rng, &m.to_string()) } else { m.to_string() };
            vec![Op::InstantiateProbe { kind: "staking".into(), sender: sc.admin.clone(), msg: txt }]
        }
        16 => {
            let m = json!({"admin": if rng.chance(1, 2) { json!(junk_str(rng, sc)) } else { Value::Null }, "trader": if rng.chance(1, 2) { json!(junk_str(rng, sc)) } else { Value::Null }, "allowed_swap_routes": [[{"pool_id": rng.next(), "token_in_denom": "a", "token_out_denom": "b"}], []]});
            vec![Op::InstantiateProbe { kind: "treasury".into(), sender: sc.admin.clone(), msg: m.to_string() }]
        }
        _ => {
            // treasury entry points
            let Some(tr) = sc.treasury.clone() else { return vec![Op::QueryProbe { contract: sc.q.clone(), msg: "{\"state\":{}}".into() }] };
            let routes = match rng.below(3) {
                0 => json!([]),
                1 => json!([{"pool_id": 1, "token_in_denom": "uosmo", "token_out_denom": sc.s}]),
                _ => json!([{"pool_id": u64::MAX, "token_in_denom": "", "token_out_denom": ""}, {"pool_id": 0, "token_in_denom": "x", "token_out_denom": "y"}]),
            };
            let m = match rng.below(8) {
                0 => json!({"swap_exact_amount_in": {"routes": routes, "token_in": {"denom": "uosmo", "amount": amt(rng).to_string()}, "token_out_min_amount": u128::MAX.to_string()}}),
                1 => json!({"swap_exact_amount_out": {"routes": routes, "token_out": {"denom": sc.s, "amount": amt(rng).to_string()}, "token_in_max_amount": "0"}}),
                2 => json!({"spend_funds": {"amount": {"denom": sc.s, "amount": amt(rng).to_string()}, "receiver": junk_str(rng, sc), "channel_id": if rng.chance(1, 2) { json!("channel-1") } else { Value::Null }}}),
                3 => json!({"update_config": {"trader": if rng.chance(1, 3) { json!(junk_str(rng, sc)) } else { Value::Null }, "allowed_swap_routes": if rng.chance(2, 3) { json!([routes, []]) } else { Value::Null }}}),
                4 => json!({"transfer_ownership": {"new_owner": junk_str(rng, sc)}}),
                5 => json!({"accept_ownership": {}}),
                6 => json!({"revoke_ownership_transfer": {}}),
                _ => json!({"bogus": {}}),
            };
            if rng.chance(1, 8) {
                // a complete ownership handover of the treasury and back, with Config queried after each step
                let a = sc.admin.clone();
                let b = sc.users[0].clone();
                let cfgq = || Op::QueryProbe { contract: tr.clone(), msg: "{\"config\":{}}".into() };
                let ex = |who: &str, m: Value| Op::Exec { sender: who.to_string(), contract: tr.clone(), msg: m.to_string(), funds: vec![] };
                return vec![
                    ex(&a, json!({"transfer_ownership": {"new_owner": b}})), cfgq(), Op::Advance { secs: 7 * 24 * 3600 + 1 }, ex(&b, json!({"accept_ownership": {}})), cfgq(),
                    ex(&b, json!({"transfer_ownership": {"new_owner": a}})), cfgq(), Op::Advance { secs: 7 * 24 * 3600 + 1 }, ex(&a, json!({"accept_ownership": {}})), cfgq(),
                ];
            }
            if rng.chance(1, 3) {
                vec![Op::QueryProbe { contract: tr, msg: if rng.chance(1, 2) { "{\"config\":{}}".into() } else { "{\"x\":1}".into() } }]
            } else if rng.chance(1, 2) {
                let who = if rng.chance(2, 3) { sc.admin.clone() } else { sender };
                vec![Op::Exec { sender: who, contract: tr, msg: m.to_string(), funds: vec![] }]
            } else {
                vec![Op::ExecProbe { sender, contract: tr, msg: m.to_string(), funds: vec![], mint: vec![] }]
            }
        }
    }
}


/// staked-asset denoms around the accepted shape (ibc/ + 64) with a multi-byte character placed at every
/// byte offset near the marker and total byte lengths 67..69 — string slicing by byte index must not abort
pub fn weird_denom(rng: &mut Rng) -> String {
    if rng.chance(1, 6) {
        return format!("ibc/{}", "\u{00e9}".repeat(32));
    }
    let c = *rng.pick(&['\u{00e9}', '\u{20ac}', '\u{1F600}']);
    let lead = rng.below(9) as usize;
    let total = 67 + rng.below(3) as usize;
    let mut d: String = "ibc/AAAAAAAA".chars().take(lead).collect();
    d.push(c);
    while d.len() < total {
        d.push('A');
    }
    d
}


/// acknowledgement texts of a few hundred bytes with multi-byte characters at every offset around 256
/// (binary acknowledgements reach the callback as text with replacement characters in it)
pub fn long_ack(rng: &mut Rng) -> String {
    let lead = 250 + rng.below(10) as usize;
    let c = *rng.pick(&['\u{00e9}', '\u{20ac}', '\u{FFFD}', '\u{1F600}']);
    let mut s = "e".repeat(lead);
    for _ in 0..rng.range(1, 40) {
        s.push(c);
    }
    s.push_str(&"z".repeat(rng.below(300) as usize));
    s
}
