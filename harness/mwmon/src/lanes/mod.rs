//! Dedicated lanes (non-history checks).
use crate::{Acc, Args};
use serde_json::Value;

pub mod c04;
pub mod c05perm;
pub mod c07enum;
pub mod c09;
pub mod c12;
pub mod c13;
pub mod c14;
pub mod c15diff;
pub mod c18;
pub mod c19;
pub mod sampled;
pub mod smallscope;

pub fn run(name: &str, a: &Args, acc: &mut Acc) {
    match name {
        "c04" => c04::run(a, acc),
        "c05perm" => c05perm::run(a, acc),
        "c07enum" => c07enum::run(a, acc),
        "c09" => c09::run(a, acc),
        "c12" => c12::run(a, acc),
        "c13" => c13::run(a, acc),
        "c14" => c14::run(a, acc),
        "c15diff" => c15diff::run(a, acc),
        "smallscope" => smallscope::run(a, acc),
        "c18" => c18::run(a, acc),
        "c19" => c19::run(a, acc),
        "c08" | "c10" | "c17" => sampled::run(name, a, acc),
        _ => acc.inconclusive.push(format!("unknown lane {name}")),
    }
}

pub fn replay(v: &Value) -> Result<Vec<(String, String)>, String> {
    let lane = v.get("lane").and_then(|x| x.as_str()).unwrap_or("");
    let case = v.get("case").cloned().unwrap_or(Value::Null);
    match lane {
        "c04" => c04::replay(&case),
        "c09" => c09::replay(&case),
        "c12" => c12::replay(&case),
        "c13" => c13::replay(&case),
        "c14" => c14::replay(&case),
        "c15diff" => c15diff::replay(&case),
        "c18" => c18::replay(&case),
        "c08" | "c10" | "c17" => sampled::replay(lane, &case),
        _ => Err(format!("unknown lane {lane}")),
    }
}
