//! Dedicated lanes (non-history checks).
use crate::{Acc, Args};
use serde_json::Value;

pub fn run(name: &str, _a: &Args, acc: &mut Acc) {
    acc.inconclusive.push(format!("unknown lane {name}"));
}

pub fn replay(_v: &Value) -> Result<Vec<(String, String)>, String> {
    Err("unknown engine".into())
}
