//! Dedicated lanes (non-history checks).
use crate::{Acc, Args};
use serde_json::Value;

pub mod c04;

pub fn run(name: &str, a: &Args, acc: &mut Acc) {
    match name {
        "c04" => c04::run(a, acc),
        _ => acc.inconclusive.push(format!("unknown lane {name}")),
    }
}

pub fn replay(v: &Value) -> Result<Vec<(String, String)>, String> {
    let lane = v.get("lane").and_then(|x| x.as_str()).unwrap_or("");
    let case = v.get("case").cloned().unwrap_or(Value::Null);
    match lane {
        "c04" => c04::replay(&case),
        _ => Err(format!("unknown lane {lane}")),
    }
}
