//! C09: the account accepted as cross-chain sender is exactly the ibc-hooks intermediate account
//! computed by the harness's own SHA-256 + bech32 code; near-miss derivations, neighbouring
//! channels and senders are rejected; the accepted account follows configuration updates.
use crate::prim::{self, Rng};
use crate::scenario::*;
use crate::world::*;
use crate::{Acc, Args};
use serde_json::{json, Value};
use std::collections::BTreeMap;

fn near_misses(channel: &str, sender: &str, prefix: &str, other_prefix: &str, other_sender: &str) -> Vec<(&'static str, String)> {
    let th = prim::sha256(b"ibc-wasm-hook-intermediary");
    let h = |pre: &[u8], body: &str| -> [u8; 32] {
        let mut v = pre.to_vec();
        v.extend_from_slice(body.as_bytes());
        prim::sha256(&v)
    };
    let good = h(&th, &format!("{channel}/{sender}"));
    let mut out: Vec<(&'static str, String)> = vec![];
    out.push(("separator-colon", prim::bech32_encode(prefix, &h(&th, &format!("{channel}:{sender}")))));
    out.push(("no-separator", prim::bech32_encode(prefix, &h(&th, &format!("{channel}{sender}")))));
    out.push(("swapped-order", prim::bech32_encode(prefix, &h(&th, &format!("{sender}/{channel}")))));
    out.push(("single-hash", prim::bech32_encode(prefix, &h(b"ibc-wasm-hook-intermediary", &format!("{channel}/{sender}")))));
    out.push(("no-type-prefix", prim::bech32_encode(prefix, &prim::sha256(format!("{channel}/{sender}").as_bytes()))));
    out.push(("double-hash", prim::bech32_encode(prefix, &prim::sha256(&good))));
    out.push(("truncated-20", prim::bech32_encode(prefix, &good[..20])));
    out.push(("bech32m", prim::bech32_encode_v(prefix, &good, prim::Variant::Bech32m)));
    if other_prefix != prefix {
        out.push(("other-prefix", prim::bech32_encode(other_prefix, &good)));
    }
    out.push(("upper-case", prim::bech32_encode(prefix, &good).to_uppercase()));
    out.push(("other-sender", hook_sender(channel, other_sender, prefix)));
    out.push(("raw-sender", sender.to_string()));
    // neighbouring channels
    if let Some(n) = channel.strip_prefix("channel-").and_then(|x| x.parse::<u64>().ok()) {
        out.push(("channel+1", hook_sender(&format!("channel-{}", n.wrapping_add(1)), sender, prefix)));
        out.push(("channel-digit-appended", hook_sender(&format!("channel-{n}0"), sender, prefix)));
        out.push(("channel-leading-zero", hook_sender(&format!("channel-0{n}"), sender, prefix)));
        if n >= 10 {
            out.push(("channel-digit-dropped", hook_sender(&format!("channel-{}", n / 10), sender, prefix)));
        }
    }
    out.push(("wrong-type-string", {
        let t2 = prim::sha256(b"ibc-wasm-hook-intermediary ");
        prim::bech32_encode(prefix, &h(&t2, &format!("{channel}/{sender}")))
    }));
    out
}

pub struct Triple {
    pub channel: String,
    pub prefix: String,
    pub native_prefix: String,
    pub salt: u64,
}

pub fn check_triple(t: &Triple, acc: Option<&mut Acc>) -> Vec<String> {
    let mut out = vec![];
    let mut cfg = Cfg::default_cfg();
    cfg.prefix = t.prefix.clone();
    cfg.native_prefix = t.native_prefix.clone();
    cfg.val_prefix = format!("{}valoper", t.native_prefix);
    cfg.channel = t.channel.clone();
    cfg.salt = t.salt;
    cfg.fee_rate = 0;
    cfg.treasury = false;
    cfg.unbonding = 10;
    cfg.batch_period = 10;
    let mut sc = match Sc::new(&cfg) {
        Ok(s) => s,
        Err(r) => return vec![format!("instantiate refused a well-formed configuration: {}", r.err)],
    };
    let u = sc.users[0].clone();
    sc.apply(&sc.resume(0, 0, 0));
    sc.w.mint_raw(&u, &sc.s.clone(), 10_000);
    let r = sc.apply(&sc.stake(&u, 5_000, None, None, None));
    if !r.ok {
        return vec![format!("setup stake failed: {}", r.err)];
    }
    sc.apply(&sc.unstake(&u, 1_000));
    sc.w.advance(11);
    sc.apply(&sc.submit(&u));
    sc.w.advance(11);
    let s = sc.s.clone();
    let mut local = Acc::default();
    let acc = match acc {
        Some(a) => a,
        None => &mut local,
    };
    for (which, native, msg) in [("rewards", sc.collector.clone(), json!({"receive_rewards": {}})), ("unstaked", sc.staker.clone(), json!({"receive_unstaked_tokens": {"batch_id": 1}}))] {
        let other_native = if which == "rewards" { sc.staker.clone() } else { sc.collector.clone() };
        let good = hook_sender(&t.channel, &native, &t.prefix);
        let try_from = |sender: &str| -> TxResult {
            let mut w = sc.w.clone();
            w.mint_raw(sender, &s, 100);
            w.exec(sender, &sc.q, &msg.to_string(), &[(s.clone(), 100)])
        };
        let r = try_from(&good);
        if !r.panics.is_empty() {
            out.push(format!("{which}: panicked for the rightful hook account: {:?}", r.panics));
        }
        if !r.ok {
            out.push(format!("{which}: the ibc-hooks account of ({}, {native}) under prefix '{}' is {good} but it was rejected: {}", t.channel, t.prefix, r.err));
            continue;
        }
        acc.count(&format!("c09:{which}:rightful_accepted"));
        for (family, who) in near_misses(&t.channel, &native, &t.prefix, &t.native_prefix, &other_native) {
            if who == good {
                continue;
            }
            let r = try_from(&who);
            acc.seen("C09", &format!("{which}|{family}|{}|{}", t.prefix.len().min(9), t.channel.len()));
            if r.ok {
                out.push(format!("{which}: impostor account ({family}) {who} was accepted for ({}, {native}, '{}')", t.channel, t.prefix));
            } else {
                acc.count(&format!("c09:rejected:{family}"));
            }
        }
    }
    // end to end through the simulator's own ibc-hooks path
    {
        let coll = sc.collector.clone();
        sc.w.native_mint(&coll, NATIVE_DENOM, 1_000);
        let ch = t.channel.clone();
        let r = sc.apply(&sc.reward(&coll, &ch, 500));
        if !r.ok {
            out.push(format!("end-to-end reward from the collector over {ch} rejected: {}", r.err));
        }
        let other_ch = if t.channel == "channel-424242" { "channel-424243" } else { "channel-424242" };
        sc.w.open_channels.insert(other_ch.into());
        let r = sc.apply(&sc.reward(&coll, other_ch, 500));
        if r.ok {
            out.push("end-to-end reward from the collector over another channel accepted".into());
        }
        let imp = sc.native_users[0].clone();
        sc.w.native_mint(&imp, NATIVE_DENOM, 1_000);
        let r = sc.apply(&sc.reward(&imp, &ch, 500));
        if r.ok {
            out.push("end-to-end reward from a stranger accepted".into());
        }
        acc.count("c09:end_to_end");
    }
    // whatever prefix an update manages to configure, strangers stay locked out
    for weird in ["", " ", "\u{00e9}", "OSMO", "1", "a1", "p".repeat(83).as_str()] {
        let mut w = sc.w.clone();
        let upd = json!({"update_config": {"protocol_chain_config": {"account_address_prefix": weird, "ibc_token_denom": sc.s, "ibc_channel_id": t.channel, "minimum_liquid_stake_amount": "1", "oracle_address": null}}});
        let r = w.exec(&sc.admin, &sc.q, &upd.to_string(), &[]);
        acc.seen("C09", &format!("weird-prefix|{}|{}", weird.len().min(9), r.ok));
        if r.ok {
            acc.count("c09:weird_prefix_accepted");
            for (msg, stranger) in [(json!({"receive_rewards": {}}), sc.users[1].clone()), (json!({"receive_unstaked_tokens": {"batch_id": 1}}), sc.users[2].clone()), (json!({"receive_rewards": {}}), sc.collector.clone()), (json!({"receive_unstaked_tokens": {"batch_id": 1}}), hook_sender(&t.channel, &sc.collector, &t.prefix))] {
                let mut w2 = w.clone();
                w2.mint_raw(&stranger, &s, 100);
                let r2 = w2.exec(&stranger, &sc.q, &msg.to_string(), &[(s.clone(), 100)]);
                if r2.ok {
                    out.push(format!("after configuring the protocol prefix {weird:?}, {msg} from the unrelated account {stranger} was accepted"));
                }
            }
        }
    }
    // the accepted account follows configuration updates (collector, channel)
    {
        let newcoll = addr20(&cfg.native_prefix, "collector-new");
        let vals: Vec<String> = sc.validators.clone();
        let upd = json!({"update_config": {"native_chain_config": {"account_address_prefix": cfg.native_prefix, "validator_address_prefix": cfg.val_prefix, "token_denom": NATIVE_DENOM, "validators": vals, "unbonding_period": 10, "staker_address": sc.staker, "reward_collector_address": newcoll}}});
        let r = sc.w.exec(&sc.admin.clone(), &sc.q.clone(), &upd.to_string(), &[]);
        if r.ok {
            let old = hook_sender(&t.channel, &sc.collector, &t.prefix);
            let new = hook_sender(&t.channel, &newcoll, &t.prefix);
            for (who, want) in [(old, false), (new, true)] {
                let mut w = sc.w.clone();
                w.mint_raw(&who, &s, 100);
                let r = w.exec(&who, &sc.q, &json!({"receive_rewards": {}}).to_string(), &[(s.clone(), 100)]);
                if r.ok != want {
                    out.push(format!("after changing the reward collector the {} hook account was {}", if want { "new" } else { "old" }, if r.ok { "accepted" } else { "rejected" }));
                }
            }
            acc.count("c09:follows_collector_update");
        }
        // a real delivery from the current collector first (whatever the contract remembers about it must
        // not outlive the configuration it was derived from)
        {
            let who = hook_sender(&t.channel, &newcoll, &t.prefix);
            sc.w.mint_raw(&who, &s, 100);
            let _ = sc.w.exec(&who, &sc.q.clone(), &json!({"receive_rewards": {}}).to_string(), &[(s.clone(), 100)]);
            let st = hook_sender(&t.channel, &sc.staker, &t.prefix);
            sc.w.mint_raw(&st, &s, 100);
            let _ = sc.w.exec(&st, &sc.q.clone(), &json!({"receive_unstaked_tokens": {"batch_id": 1}}).to_string(), &[(s.clone(), 100)]);
        }
        let newch = if t.channel == "channel-31337" { "channel-31338" } else { "channel-31337" };
        let upd = json!({"update_config": {"protocol_chain_config": {"account_address_prefix": cfg.prefix, "ibc_token_denom": sc.s, "ibc_channel_id": newch, "minimum_liquid_stake_amount": "1", "oracle_address": null}}});
        let r = sc.w.exec(&sc.admin.clone(), &sc.q.clone(), &upd.to_string(), &[]);
        if r.ok {
            sc.w.open_channels.insert(newch.into());
            let old = hook_sender(&t.channel, &newcoll, &t.prefix);
            let new = hook_sender(newch, &newcoll, &t.prefix);
            for (who, want) in [(old, false), (new, true)] {
                let mut w = sc.w.clone();
                w.mint_raw(&who, &s, 100);
                let r = w.exec(&who, &sc.q, &json!({"receive_rewards": {}}).to_string(), &[(s.clone(), 100)]);
                if r.ok != want {
                    out.push(format!("after changing the channel the {} hook account was {}: {}", if want { "new" } else { "old" }, if r.ok { "accepted" } else { "rejected" }, r.err));
                }
            }
            acc.count("c09:follows_channel_update");
        }
        // both sections in ONE message: collector and channel change together
        let coll3 = addr20(&cfg.native_prefix, "collector-third");
        let ch3 = if t.channel == "channel-777" { "channel-778" } else { "channel-777" };
        let cur_ch = if r.ok { newch.to_string() } else { t.channel.clone() };
        let upd = json!({"update_config": {
            "native_chain_config": {"account_address_prefix": cfg.native_prefix, "validator_address_prefix": cfg.val_prefix, "token_denom": NATIVE_DENOM, "validators": sc.validators, "unbonding_period": 10, "staker_address": sc.staker, "reward_collector_address": coll3},
            "protocol_chain_config": {"account_address_prefix": cfg.prefix, "ibc_token_denom": sc.s, "ibc_channel_id": ch3, "minimum_liquid_stake_amount": "1", "oracle_address": null}}});
        let r3 = sc.w.exec(&sc.admin.clone(), &sc.q.clone(), &upd.to_string(), &[]);
        if r3.ok {
            sc.w.open_channels.insert(ch3.into());
            for (who, want, what) in [(hook_sender(ch3, &coll3, &t.prefix), true, "new channel + new collector"), (hook_sender(&cur_ch, &coll3, &t.prefix), false, "old channel + new collector"), (hook_sender(ch3, &newcoll, &t.prefix), false, "new channel + old collector")] {
                let mut w = sc.w.clone();
                w.mint_raw(&who, &s, 100);
                let r = w.exec(&who, &sc.q, &json!({"receive_rewards": {}}).to_string(), &[(s.clone(), 100)]);
                if r.ok != want {
                    out.push(format!("after changing collector and channel in one UpdateConfig the hook account of ({what}) was {}", if r.ok { "accepted" } else { "rejected" }));
                }
            }
            acc.count("c09:follows_combined_update");
        }
    }
    // one native account in both roles (a delegator's default withdraw address is itself): its hook account
    // is then the accepted sender of both messages
    {
        let mut w = sc.w.clone();
        let ch_now = w.query(&sc.q, "{\"config\":{}}").ok().and_then(|c| c.get("protocol_chain_config").map(|p| vs(p, "ibc_channel_id"))).unwrap_or_default();
        let st = sc.staker.clone();
        let upd = json!({"update_config": {"native_chain_config": {"account_address_prefix": cfg.native_prefix, "validator_address_prefix": cfg.val_prefix, "token_denom": NATIVE_DENOM, "validators": sc.validators, "unbonding_period": 10, "staker_address": st, "reward_collector_address": st}}});
        let r = w.exec(&sc.admin, &sc.q, &upd.to_string(), &[]);
        acc.seen("C09", &format!("shared-account|{}", r.ok));
        if r.ok && !ch_now.is_empty() {
            let who = hook_sender(&ch_now, &st, &t.prefix);
            for (msg, what) in [(json!({"receive_rewards": {}}), "ReceiveRewards"), (json!({"receive_unstaked_tokens": {"batch_id": 1}}), "ReceiveUnstakedTokens")] {
                let mut w2 = w.clone();
                w2.mint_raw(&who, &s, 100);
                let r2 = w2.exec(&who, &sc.q, &msg.to_string(), &[(s.clone(), 100)]);
                // (the batch may already be received by an earlier step of this check: only authorisation matters)
                if !r2.ok && r2.err.to_lowercase().contains("unauthorized") {
                    out.push(format!("staker and reward collector are the same native account {st}: its hook account {who} was refused for {what}: {}", r2.err));
                }
            }
            acc.count("c09:shared_account");
        }
    }
    // an all-upper-case spelling of the native addresses (bech32 allows it). Whatever string the contract
    // then reports as configured is the <native sender> of the derivation: the account of exactly that
    // string is accepted and the account of the other spelling is a different pair, hence rejected.
    {
        let st_up = sc.staker.to_uppercase();
        let co_up = addr20(&cfg.native_prefix, "collector-upper").to_uppercase();
        let upd = json!({"update_config": {"native_chain_config": {"account_address_prefix": cfg.native_prefix, "validator_address_prefix": cfg.val_prefix, "token_denom": NATIVE_DENOM, "validators": sc.validators, "unbonding_period": 10, "staker_address": st_up, "reward_collector_address": co_up}}});
        let r = sc.w.exec(&sc.admin.clone(), &sc.q.clone(), &upd.to_string(), &[]);
        acc.seen("C09", &format!("upper-case-native|{}", r.ok));
        if r.ok {
            if let Ok(c) = sc.qy(json!({"config": {}})) {
                let nc = c.get("native_chain_config").cloned().unwrap_or(Value::Null);
                let ch_now = c.get("protocol_chain_config").map(|p| vs(p, "ibc_channel_id")).unwrap_or_default();
                let stored = vs(&nc, "reward_collector_address");
                if !stored.is_empty() && !ch_now.is_empty() {
                    let other = if stored == stored.to_lowercase() { stored.to_uppercase() } else { stored.to_lowercase() };
                    for (spelling, want) in [(stored.clone(), true), (other, false)] {
                        let who = hook_sender(&ch_now, &spelling, &t.prefix);
                        let mut w = sc.w.clone();
                        w.mint_raw(&who, &s, 100);
                        let r = w.exec(&who, &sc.q, &json!({"receive_rewards": {}}).to_string(), &[(s.clone(), 100)]);
                        if r.ok != want {
                            out.push(format!("collector configured as {stored}: the hook account of ({ch_now}, {spelling}) was {}", if r.ok { "accepted" } else { "rejected" }));
                        }
                    }
                    acc.count("c09:upper_case_native");
                }
            }
        }
    }
    out
}

pub fn run(a: &Args, acc: &mut Acc) {
    let seed = a.u64("seed", 1);
    let shard = a.u64("shard", 0);
    let triples = a.u64("triples", 300);
    let budget = a.u64("budget-s", 0);
    let replay_dir = a.s("replay-dir", "/verif/replays");
    let mut rng = Rng::new(seed ^ (shard + 1).wrapping_mul(0x9E3779B97F4A7C15) ^ 0xC09);
    let start = std::time::Instant::now();
    let prefixes = ["osmo", "a", "o1o", "x1y2z", "init", "osmo1", "q", "celestia", "abcdefghijklmnopqrstuvwxyz234567", "mw", "p2p1"];
    let nprefixes = ["celestia", "init", "c", "cel1", "osmo", "n"];
    let mut pre: BTreeMap<String, (String, String)> = BTreeMap::new();
    let mut accts: BTreeMap<String, (String, String)> = BTreeMap::new();
    let mut nv = 0;
    let mut i = 0;
    loop {
        if budget > 0 {
            if start.elapsed().as_secs() >= budget {
                break;
            }
        } else if i >= triples {
            break;
        }
        i += 1;
        let chn = match rng.below(6) {
            0 => rng.below(3),
            1 => 10u64.pow(rng.range(0, 19) as u32),
            2 => u64::MAX - rng.below(2),
            3 => rng.below(200),
            _ => rng.next() >> rng.below(64),
        };
        let channel = if rng.chance(1, 12) { format!("channel-0{chn}") } else { format!("channel-{chn}") };
        let t = Triple { channel: channel.clone(), prefix: rng.pick(&prefixes).to_string(), native_prefix: rng.pick(&nprefixes).to_string(), salt: rng.below(1_000_000) };
        let v = check_triple(&t, Some(acc));
        acc.count("c09:triples");
        // pre-image injectivity over everything generated so far
        for who in ["staker", "collector"] {
            let native = addr20(&t.native_prefix, &format!("{who}{}", t.salt));
            let p = format!("{channel}/{native}");
            let a = hook_sender(&channel, &native, &t.prefix);
            if let Some(prev) = pre.insert(p.clone(), (channel.clone(), native.clone())) {
                if prev != (channel.clone(), native.clone()) {
                    acc.violations.push(json!({"property": "C09", "what": format!("pre-image '{p}' arises from two distinct (channel, sender) pairs: {prev:?} and ({channel}, {native})"), "sig": "pre-image collision", "replay": ""}));
                }
            }
            let key = format!("{}|{a}", t.prefix);
            if let Some(prev) = accts.insert(key, (channel.clone(), native.clone())) {
                if prev != (channel.clone(), native.clone()) {
                    acc.violations.push(json!({"property": "C09", "what": format!("account {a} derived for two distinct pairs: {prev:?} and ({channel}, {native})"), "sig": "account collision", "replay": ""}));
                }
            }
        }
        if acc.samples.len() < 2 {
            acc.samples.push(json!({"lane": "c09", "channel": t.channel, "prefix": t.prefix, "native_prefix": t.native_prefix, "collector_hook_account": hook_sender(&t.channel, &addr20(&t.native_prefix, &format!("collector{}", t.salt)), &t.prefix)}));
        }
        for e in v {
            nv += 1;
            if nv <= 5 {
                let path = format!("{replay_dir}/C09-{seed}-{shard}-{nv}.json");
                let _ = std::fs::create_dir_all(&replay_dir);
                let _ = std::fs::write(&path, json!({"engine": "lane", "lane": "c09", "props": ["C09"], "case": {"channel": t.channel, "prefix": t.prefix, "native_prefix": t.native_prefix, "salt": t.salt}}).to_string());
                acc.violations.push(json!({"property": "C09", "what": e, "sig": crate::sig_of(&e), "replay": path}));
            }
        }
    }
    acc.add("c09:distinct_preimages", pre.len() as u64);
}

pub fn replay(case: &Value) -> Result<Vec<(String, String)>, String> {
    let t = Triple { channel: vs(case, "channel"), prefix: vs(case, "prefix"), native_prefix: vs(case, "native_prefix"), salt: vu64(case, "salt") };
    Ok(check_triple(&t, None).into_iter().map(|e| ("C09".to_string(), e)).collect())
}
