//! C15 optionality differential: the same operations on two deployments that differ only in
//! `oracle_address` (Some / None). Results, totals, batches, queue and every ledger must agree,
//! and the deployment without an oracle must never dispatch a contract call.
use crate::gen::*;
use crate::hist::*;
use crate::obs::*;
use crate::prim::Rng;
use crate::scenario::*;
use crate::world::*;
use crate::{Acc, Args};
use serde_json::{json, Value};

fn strip_oracle(op: &Op) -> Op {
    match op {
        Op::Exec { sender, contract, msg, funds } => {
            let mut v: Value = serde_json::from_str(msg).unwrap_or(Value::Null);
            if let Some(p) = v.get_mut("update_config").and_then(|u| u.get_mut("protocol_chain_config")) {
                if let Some(o) = p.as_object_mut() {
                    o.insert("oracle_address".into(), Value::Null);
                }
            }
            Op::Exec { sender: sender.clone(), contract: contract.clone(), msg: v.to_string(), funds: funds.clone() }
        }
        other => other.clone(),
    }
}

fn cmp(a: &Run, b: &Run, ra: &TxResult, rb: &TxResult) -> Option<String> {
    if ra.ok != rb.ok {
        return Some(format!("outcome differs: with oracle {} ({}), without {} ({})", ra.ok, ra.err, rb.ok, rb.err));
    }
    let (x, y) = (&a.obs, &b.obs);
    if x.n != y.n || x.l != y.l || x.fees != y.fees || x.rewards != y.rewards || x.rate != y.rate {
        return Some(format!("totals differ: with oracle {}/{}/{}/{}, without {}/{}/{}/{}", x.n, x.l, x.fees, x.rewards, y.n, y.l, y.fees, y.rewards));
    }
    if x.batches != y.batches || x.queue != y.queue || x.stopped != y.stopped || x.bal_s != y.bal_s || x.bal_t != y.bal_t || x.supply_t != y.supply_t {
        return Some("batches / queue / balances differ between the two deployments".into());
    }
    let ba: Vec<_> = a.sc.w.bank.iter().filter(|(_, v)| **v != 0).collect();
    let bb: Vec<_> = b.sc.w.bank.iter().filter(|(_, v)| **v != 0).collect();
    if ba != bb {
        let d: Vec<_> = ba.iter().filter(|x| !bb.contains(x)).take(3).collect();
        let d2: Vec<_> = bb.iter().filter(|x| !ba.contains(x)).take(3).collect();
        return Some(format!("bank balances differ between the two deployments: {d:?} vs {d2:?}"));
    }
    // (the oracle mock's own instantiation shifts the simulator's transaction counter by one)
    let norm = |w: &World| -> Vec<Packet> { w.packets.values().map(|p| { let mut p = p.clone(); p.sent_at_tx = 0; p }).collect() };
    if norm(&a.sc.w) != norm(&b.sc.w) {
        let nb = norm(&b.sc.w);
        let d: Vec<_> = norm(&a.sc.w).into_iter().filter(|p| !nb.contains(p)).take(2).collect();
        return Some(format!("packet stores differ between the two deployments: {d:?}"));
    }
    if a.sc.w.native != b.sc.w.native {
        return Some("native ledgers differ between the two deployments".into());
    }
    // events: identical apart from the oracle call itself
    // reply ids are derived from the transaction index, which the oracle mock's instantiation shifts
    let norm_ev = |e: &Ev| -> Ev {
        match e {
            Ev::Reply { ok, .. } => Ev::Reply { id: 0, ok: *ok },
            other => other.clone(),
        }
    };
    let fa: Vec<Ev> = ra.events.iter().filter(|e| !matches!(e, Ev::Oracle { .. } | Ev::WasmExec { .. } | Ev::Exec { .. })).map(norm_ev).collect();
    let fb: Vec<Ev> = rb.events.iter().filter(|e| !matches!(e, Ev::Exec { .. })).map(norm_ev).collect();
    if fa != fb {
        return Some("effects other than the oracle call differ between the two deployments".into());
    }
    if rb.events.iter().any(|e| matches!(e, Ev::Oracle { .. } | Ev::WasmExec { .. })) {
        return Some("the deployment without an oracle dispatched a contract call".into());
    }
    None
}

pub fn run(a: &Args, acc: &mut Acc) {
    let seed = a.u64("seed", 1);
    let shard = a.u64("shard", 0);
    let histories = a.u64("histories", 10);
    let steps = a.u64("steps", 200) as usize;
    let budget = a.u64("budget-s", 0);
    let replay_dir = a.s("replay-dir", "/verif/replays");
    let start = std::time::Instant::now();
    let mut master = Rng::new(seed.wrapping_mul(0x9E3779B97F4A7C15) ^ (shard + 1).wrapping_mul(0xD1B54A32D192ED03) ^ 0xC15D);
    let mut h = 0;
    loop {
        if budget > 0 {
            if start.elapsed().as_secs() >= budget {
                break;
            }
        } else if h >= histories {
            break;
        }
        h += 1;
        let hseed = master.next();
        let mut crng = Rng::new(hseed);
        let mut cfg = Cfg::random(&mut crng);
        cfg.oracle = true;
        let mut cfg_b = cfg.clone();
        cfg_b.oracle = false;
        let (Ok(mut ra), Ok(mut rb)) = (Run::new(&cfg, &["C15"]), Run::new(&cfg_b, &["C15"])) else { continue };
        // scripted part: prologue ops are produced on A and mirrored onto B
        let mut shadow = ra.clone();
        if h % 2 == 0 {
            // complete exit, accounting corrections with a staked total but no LST, re-entry, transfer storm
            shadow.exit_scenario();
        } else {
            shadow.prologue();
        }
        let mut ops: Vec<Op> = shadow.trace.clone();
        let mut g = Gen::new(hseed ^ 0x15, Profile::balanced());
        let mut fail: Option<String> = None;
        let mut i = 0usize;
        let mut generated = 0usize;
        loop {
            if i >= ops.len() {
                if generated >= steps {
                    break;
                }
                ops.extend(g.next(&ra.sc, &ra.obs, &ra.model));
                generated += 1;
                continue;
            }
            let op = ops[i].clone();
            i += 1;
            let xa = ra.step(op.clone());
            let xb = rb.step(strip_oracle(&op));
            acc.seen("C15", &format!("diff|{}|{}|{}", op.kind(), xa.ok, crate::model::regime(ra.obs.n, ra.obs.l)));
            if let Some(e) = cmp(&ra, &rb, &xa, &xb) {
                fail = Some(format!("{} after {}: {e}", "oracle optionality", op.kind()));
                break;
            }
        }
        acc.count("c15diff:histories");
        acc.add("c15diff:steps", ra.steps);
        for v in ra.viols.iter().chain(rb.viols.iter()) {
            if v.prop == "C15" && fail.is_none() {
                fail = Some(v.what.clone());
            }
        }
        if let Some(e) = fail {
            if acc.violations.len() < 5 {
                let path = format!("{replay_dir}/C15-diff-{seed}-{shard}-{h}.json");
                let _ = std::fs::create_dir_all(&replay_dir);
                let doc = json!({"engine": "lane", "lane": "c15diff", "props": ["C15"], "case": {"cfg": serde_json::to_value(&cfg).unwrap(), "trace": serde_json::to_value(&ra.trace).unwrap()}});
                let _ = std::fs::write(&path, doc.to_string());
                acc.violations.push(json!({"property": "C15", "what": e, "sig": crate::sig_of(&e), "replay": path}));
            }
        }
        if acc.samples.is_empty() {
            acc.samples.push(json!({"lane": "c15diff", "cfg": serde_json::to_value(&cfg).unwrap(), "steps": ra.steps}));
        }
    }
}

pub fn replay(case: &Value) -> Result<Vec<(String, String)>, String> {
    let cfg: Cfg = serde_json::from_value(case.get("cfg").cloned().ok_or("cfg")?).map_err(|e| e.to_string())?;
    let trace: Vec<Op> = serde_json::from_value(case.get("trace").cloned().ok_or("trace")?).map_err(|e| e.to_string())?;
    let mut cfg_b = cfg.clone();
    cfg_b.oracle = false;
    let mut ra = Run::new(&cfg, &["C15"]).map_err(|r| r.err)?;
    let mut rb = Run::new(&cfg_b, &["C15"]).map_err(|r| r.err)?;
    let mut out = vec![];
    for op in trace {
        let xa = ra.step(op.clone());
        let xb = rb.step(strip_oracle(&op));
        if let Some(e) = cmp(&ra, &rb, &xa, &xb) {
            out.push(("C15".to_string(), format!("oracle optionality after {}: {e}", op.kind())));
            break;
        }
    }
    for v in ra.viols.iter().chain(rb.viols.iter()) {
        if v.prop == "C15" {
            out.push(("C15".to_string(), v.what.clone()));
        }
    }
    Ok(out)
}
