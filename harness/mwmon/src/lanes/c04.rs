//! C04 arithmetic lane: (N, L, x) triples driven through the public API
//! (ResumeContract + LiquidStake, or LiquidUnstake + SubmitBatch) and compared with the
//! harness's own 256-bit floor arithmetic.
use crate::prim::{self, mul128, Rng};
use crate::scenario::*;
use crate::world::*;
use crate::{Acc, Args};
use serde_json::{json, Value};

fn base() -> Sc {
    let mut cfg = Cfg::default_cfg();
    cfg.oracle = false; // rates of arbitrary 128-bit totals do not fit the oracle's fixed point
    cfg.treasury = false;
    cfg.min_stake = 1;
    cfg.batch_period = 10;
    Sc::new(&cfg).expect("instantiate")
}

pub fn gen_u128(rng: &mut Rng) -> u128 {
    match rng.below(12) {
        0 => 1,
        1 => rng.below(10) as u128 + 1,
        2 => (1u128 << rng.range(0, 127)) + rng.below(3) as u128 - 1,
        3 => u128::MAX - rng.below(3) as u128,
        4 => 10u128.pow(rng.range(0, 38) as u32) + rng.below(3) as u128 - 1,
        5 => rng.u128() >> rng.range(0, 127),
        6 => (1u128 << 64) + rng.below(5) as u128 - 2,
        7 => rng.next() as u128,
        8 => 1_000_000 * (1 + rng.below(1_000_000) as u128),
        _ => rng.u128() >> rng.range(0, 100),
    }
    .max(1)
}

/// triples near rounding boundaries: x = ceil(k*N/L) +- 1
fn gen_case(rng: &mut Rng) -> (u128, u128, u128, bool) {
    let stake = rng.chance(1, 2);
    let n = gen_u128(rng);
    let l = match rng.below(5) {
        0 => n,
        1 => n.saturating_add(rng.below(3) as u128).max(1),
        2 => n.saturating_sub(rng.below(3) as u128).max(1),
        _ => gen_u128(rng),
    };
    let x = match rng.below(6) {
        0 | 1 => {
            // land just below / at / above an integer multiple
            let k = 1 + rng.below(1000) as u128;
            let (a, b) = if stake { (n, l) } else { (l, n) };
            let t = prim::mul_div_floor(k, a, b).unwrap_or(1);
            (t.saturating_add(rng.below(3) as u128)).saturating_sub(1).max(1)
        }
        2 => 1,
        _ => gen_u128(rng),
    };
    let x = if stake { x } else { x.min(l) };
    (n, l, x, stake)
}

pub fn check_case(basesc: &Sc, n: u128, l: u128, x: u128, stake: bool, min: u128, expected: Option<u128>) -> (Vec<String>, &'static str) {
    let mut v = vec![];
    let mut sc = basesc.clone();
    if min != 1 {
        let r = sc.apply(&Op::exec(&sc.admin, &sc.q, json!({"update_config": {"protocol_chain_config": {"account_address_prefix": sc.cfg.prefix, "ibc_token_denom": sc.s, "ibc_channel_id": sc.cfg.channel, "minimum_liquid_stake_amount": min.to_string(), "oracle_address": null}}}), vec![]));
        if !r.ok {
            return (vec![], "setup-refused");
        }
    }
    let r = sc.apply(&sc.resume(n, l, 0));
    if !r.ok {
        return (vec![format!("resume({n},{l}) refused: {}", r.err)], "setup");
    }
    let u = sc.users[0].clone();
    if stake {
        // representable?
        let refm = if n == 0 { Some(x) } else { prim::mul_div_floor(x, l, n) };
        let rep = match refm {
            Some(m) => n.checked_add(x).is_some() && l.checked_add(m).is_some(),
            None => false,
        };
        sc.w.mint_raw(&u, &sc.s.clone(), x);
        let r = sc.apply(&sc.stake(&u, x, None, None, expected));
        if !rep {
            return (v, "unrepresentable");
        }
        let m = refm.unwrap();
        if r.ok {
            let minted: u128 = r.events.iter().map(|e| if let Ev::TfMint { amount, .. } = e { *amount } else { 0 }).sum();
            if minted != m {
                v.push(format!("stake {x} at totals {n}/{l}: minted {minted}, floor(x*L/N) = {m}"));
            }
            if minted == 0 {
                v.push(format!("stake {x} at totals {n}/{l} succeeded with a zero mint"));
            }
            if x < min {
                v.push(format!("stake {x} below minimum {min} succeeded"));
            }
            if let Some(e) = expected {
                if minted < e {
                    v.push(format!("stake {x} at {n}/{l}: minted {minted} < expected_mint_amount {e}"));
                }
            }
            // (N+x)*L >= N*(L+minted)
            if mul128(n + x, l) < mul128(n, l + minted) {
                v.push(format!("stake {x} at {n}/{l} minted {minted}: redemption rate of holders lowered"));
            }
            if let Some(back) = prim::mul_div_floor(n + x, minted, l + minted) {
                if back > x {
                    v.push(format!("stake {x} at {n}/{l} minted {minted}: immediate unstake returns {back} > paid"));
                }
            }
            // the totals the contract recorded
            if crate::model::rate_in_bounds(n + x, l + minted) {
                if let Ok(st) = sc.qy(json!({"state": {}})) {
                    let (n2, l2) = (vu128(&st, "total_native_token"), vu128(&st, "total_liquid_stake_token"));
                    if n2 != n + x || l2 != l + minted {
                        v.push(format!("stake {x} at {n}/{l}: totals became {n2}/{l2}, expected {}/{}", n + x, l + minted));
                    }
                }
            }
            return (v, "stake-ok");
        } else {
            if r.err.starts_with("panic") {
                v.push(format!("stake {x} at representable totals {n}/{l} panicked: {:?}", r.panics));
            }
            let should = m > 0 && x >= min && expected.map(|e| m >= e).unwrap_or(true);
            return (v, if should { "stake-refused-unexpectedly" } else { "stake-refused" });
        }
    } else {
        if x > l || x == 0 {
            return (v, "skip");
        }
        let refu = prim::mul_div_floor(n, x, l);
        let t = sc.t.clone();
        // circulating supply must cover the burn
        sc.w.mint_raw(&u, &t, x);
        let r1 = sc.apply(&sc.unstake(&u, x));
        sc.w.advance(11);
        let r2 = sc.apply(&sc.submit(&u));
        let Some(uamt) = refu else { return (v, "unrepresentable") };
        if !r1.ok {
            v.push(format!("unstake {x} refused: {}", r1.err));
            return (v, "unstake-refused");
        }
        if r2.ok {
            let b = sc.qy(json!({"batch": {"id": 1}})).unwrap_or(Value::Null);
            let exp = vu128(&b, "expected_native_unstaked");
            if exp != uamt {
                v.push(format!("submit of {x} LST at totals {n}/{l}: set aside {exp}, floor(N*b/L) = {uamt}"));
            }
            let burned: u128 = r2.events.iter().map(|e| if let Ev::TfBurn { amount, .. } = e { *amount } else { 0 }).sum();
            if burned != x {
                v.push(format!("submit burned {burned} for a batch of {x}"));
            }
            // (N-u)*L >= N*(L-b)
            if exp <= n && mul128(n - exp, l) < mul128(n, l - x) {
                v.push(format!("submit of {x} at {n}/{l} set aside {exp}: redemption rate lowered"));
            }
            // the totals the contract keeps: N - set aside, L - burned (State is only queried where its
            // fixed-point rate is representable)
            if exp <= n && crate::model::rate_in_bounds(n - exp, l - x) {
                if let Ok(st) = sc.qy(json!({"state": {}})) {
                    let (n2, l2) = (vu128(&st, "total_native_token"), vu128(&st, "total_liquid_stake_token"));
                    if n2 != n - exp || l2 != l - x {
                        v.push(format!("submit of {x} at {n}/{l}: totals became {n2}/{l2}, expected {}/{}", n - exp, l - x));
                    }
                    if mul128(n2, l) < mul128(n, l2) {
                        v.push(format!("submit of {x} at {n}/{l}: remaining holders' rate lowered to {n2}/{l2}"));
                    }
                }
            }
            return (v, "submit-ok");
        } else {
            if r2.err.starts_with("panic") {
                v.push(format!("submit of {x} at {n}/{l} panicked: {:?}", r2.panics));
            } else {
                v.push(format!("submit of {x} at {n}/{l} refused: {}", r2.err));
            }
            return (v, "submit-refused");
        }
    }
}

pub fn run(a: &Args, acc: &mut Acc) {
    let seed = a.u64("seed", 1);
    let shard = a.u64("shard", 0);
    let cases = a.u64("cases", 20000);
    let budget = a.u64("budget-s", 0);
    let replay_dir = a.s("replay-dir", "/verif/replays");
    let mut rng = Rng::new(seed ^ (shard + 1).wrapping_mul(0x9E3779B97F4A7C15) ^ 0xC04);
    let b = base();
    let start = std::time::Instant::now();
    let mut i = 0u64;
    let mut nviol = 0;
    loop {
        if budget > 0 {
            if i % 256 == 0 && start.elapsed().as_secs() >= budget {
                break;
            }
        } else if i >= cases {
            break;
        }
        i += 1;
        let (n, l, x, stake) = gen_case(&mut rng);
        let min = if rng.chance(1, 4) { *rng.pick(&[x, x.saturating_add(1), x.saturating_sub(1).max(1)]) } else { 1 };
        let expected = if stake && rng.chance(1, 4) {
            let m = prim::mul_div_floor(x, l, n).unwrap_or(0);
            Some(*rng.pick(&[m, m.saturating_add(1), m.saturating_sub(1)]))
        } else {
            None
        };
        let (v, class) = check_case(&b, n, l, x, stake, min, expected);
        acc.count(&format!("c04:{class}"));
        let bits = |z: u128| 128 - z.leading_zeros();
        acc.seen("C04", &format!("{class}|{}|{}|{}|{}", stake, bits(n) / 8, bits(l) / 8, bits(x) / 8));
        if acc.samples.len() < 3 && class.ends_with("-ok") {
            acc.samples.push(json!({"lane": "c04", "n": n.to_string(), "l": l.to_string(), "x": x.to_string(), "stake": stake, "min": min.to_string(), "class": class}));
        }
        for w in v {
            nviol += 1;
            if nviol <= 5 {
                let path = format!("{replay_dir}/C04-arith-{seed}-{shard}-{i}.json");
                let doc = json!({"engine": "lane", "lane": "c04", "props": ["C04"], "case": {"n": n.to_string(), "l": l.to_string(), "x": x.to_string(), "stake": stake, "min": min.to_string(), "expected": expected.map(|e| e.to_string())}});
                let _ = std::fs::create_dir_all(&replay_dir);
                let _ = std::fs::write(&path, doc.to_string());
                acc.violations.push(json!({"property": "C04", "what": w, "sig": crate::sig_of(&w), "replay": path}));
            }
        }
    }
}

pub fn replay(case: &Value) -> Result<Vec<(String, String)>, String> {
    let g = |k: &str| case.get(k).and_then(|x| x.as_str()).and_then(|s| s.parse::<u128>().ok());
    let (n, l, x) = (g("n").ok_or("n")?, g("l").ok_or("l")?, g("x").ok_or("x")?);
    let stake = case.get("stake").and_then(|x| x.as_bool()).unwrap_or(true);
    let min = g("min").unwrap_or(1);
    let expected = g("expected");
    let (v, _) = check_case(&base(), n, l, x, stake, min, expected);
    Ok(v.into_iter().map(|w| ("C04".to_string(), w)).collect())
}
