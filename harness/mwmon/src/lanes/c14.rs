//! C14: accepted configuration is well-formed (own predicate); updates are sectional;
//! validator add/remove change exactly the named element.
use crate::prim::{self, Rng};
use crate::scenario::*;
use crate::world::*;
use crate::{Acc, Args};
use serde_json::{json, Value};

fn good_prefix(p: &str) -> bool {
    !p.is_empty() && p.len() <= 83 && p.bytes().all(|b| (33..=126).contains(&b)) && !p.bytes().any(|b| b.is_ascii_uppercase())
}

fn addr_under(a: &str, prefix: &str) -> bool {
    matches!(prim::bech32_decode(a), Some((h, _, _)) if h == prefix)
}

fn alphabetic(d: &str) -> bool {
    !d.is_empty() && d.chars().all(|c| c.is_ascii_alphabetic())
}

/// own well-formedness predicate over the Config query answer (what was accepted, as stored)
pub fn well_formed(cfg: &Value) -> Vec<String> {
    well_formed_sections(cfg, 0xff)
}

/// `sections` bit mask: 1 native, 2 protocol, 4 fee, 8 monitors, 32 LST denom. Only the supplied
/// sections are judged (fee / monitors against the protocol prefix in force).
pub fn well_formed_sections(cfg: &Value, sections: u32) -> Vec<String> {
    let all = well_formed_all(cfg);
    all.into_iter().filter(|(sec, _)| sections & sec != 0).map(|(_, m)| m).collect()
}

fn well_formed_all(cfg: &Value) -> Vec<(u32, String)> {
    let mut bad: Vec<(u32, String)> = vec![];
    let n = cfg.get("native_chain_config").cloned().unwrap_or(Value::Null);
    let p = cfg.get("protocol_chain_config").cloned().unwrap_or(Value::Null);
    let f = cfg.get("protocol_fee_config").cloned().unwrap_or(Value::Null);
    let np = vs(&n, "account_address_prefix");
    let vp = vs(&n, "validator_address_prefix");
    let pp = vs(&p, "account_address_prefix");
    for (sec, name, x) in [(1u32, "native account prefix", &np), (1, "validator prefix", &vp), (2, "protocol account prefix", &pp)] {
        if !good_prefix(x) {
            bad.push((sec, format!("{name} '{x}' is not a valid lower-case bech32 prefix")));
        }
    }
    for k in ["staker_address", "reward_collector_address"] {
        let a = vs(&n, k);
        if !addr_under(&a, &np) {
            bad.push((1, format!("{k} '{a}' is not a checksum-valid address under '{np}'")));
        }
    }
    let vals: Vec<String> = n.get("validators").and_then(|x| x.as_array()).map(|a| a.iter().map(|x| x.as_str().unwrap_or("").to_string()).collect()).unwrap_or_default();
    for (i, a) in vals.iter().enumerate() {
        if !addr_under(a, &vp) {
            bad.push((1, format!("validator '{a}' is not a checksum-valid address under '{vp}'")));
        }
        if vals[..i].contains(a) {
            bad.push((1, format!("validator '{a}' listed twice")));
        }
    }
    let mons: Vec<String> = cfg.get("monitors").and_then(|x| x.as_array()).map(|a| a.iter().map(|x| x.as_str().unwrap_or("").to_string()).collect()).unwrap_or_default();
    for (i, a) in mons.iter().enumerate() {
        if !addr_under(a, &pp) {
            bad.push((8, format!("monitor '{a}' is not a checksum-valid address under '{pp}'")));
        }
        if mons[..i].contains(a) {
            bad.push((8, format!("monitor '{a}' listed twice")));
        }
    }
    if let Some(o) = p.get("oracle_address").and_then(|x| x.as_str()) {
        if !addr_under(o, &pp) {
            bad.push((2, format!("oracle '{o}' is not a checksum-valid address under '{pp}'")));
        }
    }
    if let Some(t) = f.get("treasury_address").and_then(|x| x.as_str()) {
        if !addr_under(t, &pp) {
            bad.push((4, format!("treasury '{t}' is not a checksum-valid address under '{pp}'")));
        }
    }
    let ch = vs(&p, "ibc_channel_id");
    match ch.strip_prefix("channel-") {
        Some(n) if n.parse::<u64>().is_ok() => {}
        _ => bad.push((2, format!("channel '{ch}' is not channel-<n>"))),
    }
    let d = vs(&p, "ibc_token_denom");
    match d.strip_prefix("ibc/") {
        Some(h) if h.len() == 64 || h.chars().count() == 64 => {}
        _ => bad.push((2, format!("staked-asset denom '{d}' is not ibc/ + 64 characters"))),
    }
    if !alphabetic(&vs(&n, "token_denom")) {
        bad.push((1, format!("native token denom '{}' is not alphabetic", vs(&n, "token_denom"))));
    }
    let lst = vs(cfg, "liquid_stake_token_denom");
    let sub = lst.rsplit('/').next().unwrap_or("");
    if !lst.starts_with("factory/") || !alphabetic(sub) {
        bad.push((32, format!("LST denom '{lst}' is not factory/<contract>/<alphabetic sub-denom>")));
    }
    bad
}

fn corrupt_str(rng: &mut Rng, s: &str) -> (String, &'static str) {
    let mut b: Vec<char> = s.chars().collect();
    match rng.below(9) {
        0 => (String::new(), "empty"),
        1 => (s.to_uppercase(), "upper"),
        2 => {
            if !b.is_empty() {
                b.pop();
            }
            (b.into_iter().collect(), "truncated")
        }
        3 => {
            // one-character checksum damage
            if let Some(c) = b.last_mut() {
                *c = if *c == 'q' { 'p' } else { 'q' };
            }
            (b.into_iter().collect(), "checksum")
        }
        4 => {
            if b.len() > 3 {
                let i = rng.range(1, b.len() as u64 - 2) as usize;
                b[i] = if b[i].is_ascii_lowercase() { b[i].to_ascii_uppercase() } else { 'B' };
            }
            (b.into_iter().collect(), "mixed-case")
        }
        5 => (format!("{s} "), "trailing-space"),
        6 => (format!(" {s}"), "leading-space"),
        7 => (format!("{s}x"), "extended"),
        _ => (s.replace('1', "l"), "separator"),
    }
}

pub fn valid_sections(rng: &mut Rng, cfg: &Cfg) -> (Value, Value, Value, Value, String) {
    let sa = cfg.salt;
    let staker = addr20(&cfg.native_prefix, &format!("staker{sa}"));
    let collector = addr20(&cfg.native_prefix, &format!("collector{sa}"));
    let vals: Vec<String> = (0..cfg.n_validators).map(|i| addr20(&cfg.val_prefix, &format!("val{i}-{sa}"))).collect();
    let mons: Vec<String> = (0..cfg.n_monitors).map(|i| addr20(&cfg.prefix, &format!("monitor{i}-{sa}"))).collect();
    let oracle = if cfg.oracle { Some(addr32(&cfg.prefix, "oracle")) } else { None };
    let treasury = if cfg.treasury { Some(addr32(&cfg.prefix, "treasury")) } else { None };
    let s = ibc_denom_for(&cfg.channel);
    let m = Sc::instantiate_msg(cfg, &staker, &collector, &vals, &mons, treasury.as_deref(), oracle.as_deref(), &s);
    let _ = rng;
    (m.get("native_chain_config").cloned().unwrap(), m.get("protocol_chain_config").cloned().unwrap(), m.get("protocol_fee_config").cloned().unwrap(), m.get("monitors").cloned().unwrap(), cfg.subdenom.clone())
}

/// returns (message, family, field) of a corrupted instantiate message
fn corrupt(rng: &mut Rng, cfg: &Cfg, m: &mut Value) -> (String, String) {
    let fields: [(&str, &str); 13] = [
        ("native_chain_config", "account_address_prefix"),
        ("native_chain_config", "validator_address_prefix"),
        ("native_chain_config", "token_denom"),
        ("native_chain_config", "staker_address"),
        ("native_chain_config", "reward_collector_address"),
        ("native_chain_config", "validators"),
        ("protocol_chain_config", "account_address_prefix"),
        ("protocol_chain_config", "ibc_token_denom"),
        ("protocol_chain_config", "ibc_channel_id"),
        ("protocol_chain_config", "oracle_address"),
        ("protocol_fee_config", "treasury_address"),
        ("", "monitors"),
        ("", "liquid_stake_token_denom"),
    ];
    let (sec, key) = *rng.pick(&fields);
    let target: &mut Value = if sec.is_empty() { m.get_mut(key).unwrap() } else { m.get_mut(sec).unwrap().get_mut(key).unwrap() };
    let fam: String;
    match key {
        "validators" | "monitors" => {
            let mut arr: Vec<String> = target.as_array().map(|a| a.iter().map(|x| x.as_str().unwrap_or("").to_string()).collect()).unwrap_or_default();
            match rng.below(6) {
                5 => {
                    // checksum-valid, but the human-readable part only BEGINS with the section's prefix and a '1'
                    let base = if key == "validators" { &cfg.val_prefix } else { &cfg.prefix };
                    arr.push(addr20(&format!("{base}1x"), "past-separator"));
                    fam = "prefix-extended-past-separator".into();
                }
                0 if !arr.is_empty() => {
                    arr.push(arr[0].clone());
                    fam = "duplicate".into();
                }
                1 if !arr.is_empty() => {
                    let u = arr[0].to_uppercase();
                    arr.push(u);
                    fam = "duplicate-upper".into();
                }
                2 => {
                    // an address of the other section's prefix
                    arr.push(addr20(if key == "validators" { &cfg.native_prefix } else { &cfg.val_prefix }, "swapped"));
                    fam = "prefix-swap".into();
                }
                3 => {
                    arr.push(prim::bech32_encode(if key == "validators" { &cfg.val_prefix } else { &cfg.prefix }, &[1, 2, 3]));
                    fam = "short-payload".into();
                }
                _ => {
                    let base = addr20(if key == "validators" { &cfg.val_prefix } else { &cfg.prefix }, "extra");
                    let (c, f) = corrupt_str(rng, &base);
                    arr.push(c);
                    fam = f.into();
                }
            }
            *target = json!(arr);
        }
        "ibc_channel_id" => {
            let c = rng.pick(&["channel-", "channel-x", "channel--1", "channel-1 ", "channel1", "Channel-1", "channel-18446744073709551616", "channel-+5", "channel-0x10", "connection-1", "", "channel-١", "channel-0/a-5", "channel-1/x-22", "channel-3/channel-4"]).to_string();
            fam = format!("channel:{c}");
            *target = json!(c);
        }
        "ibc_token_denom" => {
            let c = match rng.below(10) {
                7 => format!("ibc/ibc/{}", "A".repeat(64)),
                8 => format!("ibc/ibc/ibc/{}", "A".repeat(64)),
                9 => format!("ibc//{}", "A".repeat(64)),
                0 => "ibc/".to_string(),
                1 => format!("ibc/{}", "A".repeat(63)),
                2 => format!("ibc/{}", "A".repeat(65)),
                3 => format!("IBC/{}", "A".repeat(64)),
                4 => "A".repeat(68),
                5 => format!("ibc/{}", "\u{00e9}".repeat(32)),
                _ => "utia".to_string(),
            };
            fam = format!("denom:{}", c.chars().take(8).collect::<String>());
            *target = json!(c);
        }
        "token_denom" | "liquid_stake_token_denom" => {
            let c = rng.pick(&["", "abc", "ab1d", "ut ia", "utia/", "ütia", "st-TIA", "abcd", " stTIA", "stTIA ", "stTIA\n", "\tstTIA", "  abcd  "]).to_string();
            fam = format!("subdenom:{c}");
            *target = json!(c);
        }
        "oracle_address" | "treasury_address" | "staker_address" | "reward_collector_address" => {
            let base = target.as_str().map(|s| s.to_string()).unwrap_or_else(|| addr32(&cfg.prefix, "opt"));
            if rng.chance(1, 6) {
                let pfx = if key == "oracle_address" || key == "treasury_address" { &cfg.prefix } else { &cfg.native_prefix };
                fam = "prefix-extended-past-separator".into();
                *target = json!(addr20(&format!("{pfx}1q"), "past-separator"));
            } else if rng.chance(1, 3) {
                // valid address of another chain / section
                let other = if key == "oracle_address" || key == "treasury_address" { addr20(&cfg.native_prefix, "x") } else { addr20(&cfg.prefix, "x") };
                fam = "prefix-swap".into();
                *target = json!(other);
            } else {
                let (c, f) = corrupt_str(rng, &base);
                fam = f.into();
                *target = json!(c);
            }
        }
        _ => {
            // prefixes
            let base = target.as_str().unwrap_or("").to_string();
            let c = match rng.below(8) {
                // capitals followed by a digit or a symbol
                6 => format!("{}2", base.to_uppercase()),
                7 => {
                    let mut b: Vec<char> = base.chars().collect();
                    if let Some(x) = b.first_mut() {
                        *x = x.to_ascii_uppercase();
                    }
                    format!("{}-x1", b.into_iter().collect::<String>())
                }
                0 => String::new(),
                1 => base.to_uppercase(),
                2 => {
                    let mut b: Vec<char> = base.chars().collect();
                    if let Some(x) = b.first_mut() {
                        *x = x.to_ascii_uppercase();
                    }
                    b.into_iter().collect()
                }
                3 => "p".repeat(84),
                4 => format!("{base} "),
                _ => format!("{base}x"),
            };
            fam = format!("prefix:{}", if c.is_empty() { "empty" } else if c.len() > 83 { "long" } else if c == base.to_uppercase() { "upper" } else if c.ends_with(' ') { "space" } else if c.ends_with('x') { "other" } else { "mixed" });
            *target = json!(c);
        }
    }
    // a validator prefix is judged even when there is no validator to judge it by
    if key == "validator_address_prefix" && rng.chance(1, 2) {
        if let Some(n) = m.get_mut("native_chain_config") {
            n["validators"] = json!([]);
        }
    }
    (fam, format!("{sec}.{key}"))
}

fn cfg_of(w: &World, q: &str) -> Value {
    w.query(q, "{\"config\":{}}").unwrap_or(Value::Null)
}


fn get_vals(w: &World, q: &str) -> Vec<String> {
    cfg_of(w, q).get("native_chain_config").and_then(|n| n.get("validators")).and_then(|x| x.as_array()).map(|a| a.iter().map(|x| x.as_str().unwrap_or("").to_string()).collect()).unwrap_or_default()
}

pub fn validator_check(w: &mut World, sc: &Sc, cfg: &Cfg, msg: &Value) -> (bool, Vec<String>) {
    let mut out = vec![];
    let add = msg.get("add_validator").is_some();
    let target = if add { vs(msg.get("add_validator").unwrap(), "new_validator") } else { vs(msg.get("remove_validator").unwrap_or(&Value::Null), "validator") };
    let vals = get_vals(w, &sc.q);
    let cb = cfg_of(w, &sc.q);
    let r = w.exec(&sc.admin, &sc.q, &msg.to_string(), &[]);
    let after = get_vals(w, &sc.q);
    let ca = cfg_of(w, &sc.q);
    if !r.panics.is_empty() {
        out.push(format!("validator change panicked: {:?}", r.panics));
    }
    let present = vals.contains(&target);
    let wf = addr_under(&target, &cfg.val_prefix);
    if r.ok {
        if !wf {
            out.push(format!("{} of malformed / wrongly prefixed validator '{target}' accepted", if add { "AddValidator" } else { "RemoveValidator" }));
        }
        if add {
            let mut want = vals.clone();
            want.push(target.clone());
            if present {
                out.push(format!("AddValidator accepted the duplicate '{target}'"));
            } else if after != want {
                out.push(format!("AddValidator('{target}') turned {vals:?} into {after:?}"));
            }
        } else {
            let want: Vec<String> = vals.iter().filter(|x| **x != target).cloned().collect();
            if !present {
                out.push(format!("RemoveValidator accepted the unknown '{target}'"));
            } else if after != want {
                out.push(format!("RemoveValidator('{target}') turned {vals:?} into {after:?}"));
            }
        }
        let strip = |c: &Value| -> Value {
            let mut c = c.clone();
            if let Some(n) = c.get_mut("native_chain_config").and_then(|n| n.as_object_mut()) {
                n.remove("validators");
            }
            c
        };
        if strip(&cb) != strip(&ca) {
            out.push("validator change altered other configuration".into());
        }
    } else if after != vals {
        out.push("refused validator change altered the set".into());
    }
    (r.ok, out)
}

pub fn check_instantiate(prefix: &str, msg: &Value) -> (bool, Vec<String>) {
    let mut w = World::new(ChainKind::built(), prefix, "celestia", "channel-1");
    let admin = addr20(prefix, "admin");
    let q = addr32(prefix, "staking-c14");
    let r = w.instantiate(Kind::Staking, &admin, &q, &msg.to_string());
    let mut out = vec![];
    if !r.panics.is_empty() {
        out.push(format!("instantiate panicked: {:?}", r.panics));
    }
    if r.ok {
        let c = cfg_of(&w, &q);
        for b in well_formed(&c) {
            out.push(format!("accepted at instantiation: {b}"));
        }
        if c.get("stopped").and_then(|x| x.as_bool()) != Some(true) {
            out.push("freshly instantiated contract is not halted".into());
        }
    }
    (r.ok, out)
}

pub fn run(a: &Args, acc: &mut Acc) {
    let seed = a.u64("seed", 1);
    let shard = a.u64("shard", 0);
    let cases = a.u64("cases", 300);
    let budget = a.u64("budget-s", 0);
    let replay_dir = a.s("replay-dir", "/verif/replays");
    let mut rng = Rng::new(seed ^ (shard + 1).wrapping_mul(0x9E3779B97F4A7C15) ^ 0xC14);
    let start = std::time::Instant::now();
    let mut nv = 0u64;
    let mut report = |acc: &mut Acc, what: String, case: Value| {
        nv += 1;
        if nv <= 6 {
            let path = format!("{replay_dir}/C14-{seed}-{shard}-{nv}.json");
            let _ = std::fs::create_dir_all(&replay_dir);
            let _ = std::fs::write(&path, json!({"engine": "lane", "lane": "c14", "props": ["C14"], "case": case}).to_string());
            acc.violations.push(json!({"property": "C14", "what": what, "sig": crate::sig_of(&what), "replay": path}));
        }
    };
    let mut i = 0;
    loop {
        if budget > 0 {
            if start.elapsed().as_secs() >= budget {
                break;
            }
        } else if i >= cases {
            break;
        }
        i += 1;
        let cfg = Cfg::random(&mut rng);
        let (n, p, f, mons, sub) = valid_sections(&mut rng, &cfg);
        let valid = json!({"native_chain_config": n, "protocol_chain_config": p, "protocol_fee_config": f, "liquid_stake_token_denom": sub, "batch_period": cfg.batch_period, "monitors": mons});
        // (1) the uncorrupted configuration (counted: shows the run is not vacuous)
        let (ok, v) = check_instantiate(&cfg.prefix, &valid);
        acc.count(if ok { "c14:valid_accepted" } else { "c14:valid_refused" });
        for e in v {
            report(acc, e, json!({"kind": "instantiate", "prefix": cfg.prefix, "msg": valid}));
        }
        // (2) field-level corruption at instantiation
        for _ in 0..12 {
            let mut m = valid.clone();
            let (fam, field) = corrupt(&mut rng, &cfg, &mut m);
            let (ok, v) = check_instantiate(&cfg.prefix, &m);
            acc.seen("C14", &format!("inst|{field}|{fam}|{ok}"));
            acc.count(if ok { "c14:corrupted_accepted" } else { "c14:corrupted_refused" });
            for e in v {
                report(acc, format!("[{field} / {fam}] {e}"), json!({"kind": "instantiate", "prefix": cfg.prefix, "msg": m}));
            }
        }
        // (3) updates: every subset of sections, valid and corrupted, on a running deployment
        let Ok(sc) = Sc::new(&cfg) else { continue };
        let before = cfg_of(&sc.w, &sc.q);
        let cfg2 = {
            let mut c = Cfg::random(&mut rng);
            // same chain, other values
            c.prefix = cfg.prefix.clone();
            // (an empty validator list is a value like any other)
            c.n_validators = rng.below(4) as usize;
            c
        };
        let (n2, p2, f2, mons2, _) = valid_sections(&mut rng, &cfg2);
        for mask in 0..32u32 {
            let mut upd = serde_json::Map::new();
            let mut full = json!({"native_chain_config": n2, "protocol_chain_config": p2, "protocol_fee_config": f2, "monitors": mons2, "liquid_stake_token_denom": "abcd", "batch_period": 777});
            let corrupted = rng.chance(1, 3);
            let mut fam = String::from("valid");
            if corrupted {
                let (fm, field) = corrupt(&mut rng, &cfg2, &mut full);
                fam = format!("{field}/{fm}");
            }
            for (bit, key) in ["native_chain_config", "protocol_chain_config", "protocol_fee_config", "monitors", "batch_period"].iter().enumerate() {
                if mask & (1 << bit) != 0 {
                    upd.insert(key.to_string(), full.get(*key).cloned().unwrap());
                }
            }
            let msg = json!({ "update_config": Value::Object(upd.clone()) });
            let mut w = sc.w.clone();
            let r = w.exec(&sc.admin, &sc.q, &msg.to_string(), &[]);
            let after = cfg_of(&w, &sc.q);
            acc.seen("C14", &format!("upd|{mask}|{}|{}", if corrupted { "corrupted" } else { "valid" }, r.ok));
            acc.count(if r.ok { "c14:update_accepted" } else { "c14:update_refused" });
            let case = json!({"kind": "update", "cfg": serde_json::to_value(&cfg).unwrap(), "msg": msg});
            if !r.panics.is_empty() {
                report(acc, format!("UpdateConfig panicked: {:?}", r.panics), case.clone());
            }
            if r.ok {
                for b in well_formed_sections(&after, mask & 0xf) {
                    // fee / monitors sections are validated against the protocol section in force
                    report(acc, format!("[{fam}] accepted by UpdateConfig (sections {mask:05b}): {b}"), case.clone());
                }
                for (bit, key) in ["native_chain_config", "protocol_chain_config", "protocol_fee_config", "monitors", "batch_period"].iter().enumerate() {
                    if mask & (1 << bit) == 0 && before.get(*key) != after.get(*key) {
                        report(acc, format!("UpdateConfig (sections {mask:05b}) changed the section '{key}' that was not supplied"), case.clone());
                    }
                    if mask & (1 << bit) != 0 && *key == "batch_period" && vu64(&after, "batch_period") != 777 {
                        report(acc, "UpdateConfig did not store the supplied batch period".into(), case.clone());
                    }
                }
                if mask & 8 != 0 && !corrupted && after.get("monitors") != Some(&mons2) {
                    report(acc, "UpdateConfig did not store the supplied monitors".into(), case.clone());
                }
                if mask & 2 != 0 && !corrupted {
                    let ap = after.get("protocol_chain_config").cloned().unwrap_or(Value::Null);
                    if vs(&ap, "ibc_channel_id") != vs(&p2, "ibc_channel_id") || vu128(&ap, "minimum_liquid_stake_amount") != vu128(&p2, "minimum_liquid_stake_amount") || ap.get("oracle_address") != p2.get("oracle_address") || vs(&ap, "ibc_token_denom") != vs(&p2, "ibc_token_denom") || vs(&ap, "account_address_prefix").to_lowercase() != vs(&p2, "account_address_prefix").to_lowercase() {
                        report(acc, format!("UpdateConfig (sections {mask:05b}) did not store the supplied protocol section: {ap} vs {p2}"), case.clone());
                    }
                }
                if mask & 4 != 0 && !corrupted {
                    let af = after.get("protocol_fee_config").cloned().unwrap_or(Value::Null);
                    if vu128(&af, "dao_treasury_fee") != vu128(&f2, "dao_treasury_fee") || af.get("treasury_address") != f2.get("treasury_address") {
                        report(acc, format!("UpdateConfig (sections {mask:05b}) did not store the supplied fee section: {af} vs {f2}"), case.clone());
                    }
                }
                if mask & 1 != 0 && !corrupted {
                    let an = after.get("native_chain_config").cloned().unwrap_or(Value::Null);
                    if vs(&an, "staker_address") != vs(&n2, "staker_address") || vs(&an, "reward_collector_address") != vs(&n2, "reward_collector_address") || vu64(&an, "unbonding_period") != vu64(&n2, "unbonding_period") || an.get("validators") != n2.get("validators") {
                        report(acc, "UpdateConfig did not store the supplied native section".into(), case.clone());
                    }
                }
            } else if before != after {
                report(acc, "refused UpdateConfig changed the configuration".into(), case.clone());
            }
            if before.get("liquid_stake_token_denom") != after.get("liquid_stake_token_denom") || before.get("stopped") != after.get("stopped") {
                report(acc, format!("UpdateConfig (sections {mask:05b}) altered the LST denom or the halted flag"), case.clone());
            }
        }
        // the halted flag is also preserved when the contract is running
        {
            let mut w = sc.w.clone();
            let _ = w.exec(&sc.admin, &sc.q, &sc_resume(0, 0, 0), &[]);
            let b = cfg_of(&w, &sc.q);
            let _ = w.exec(&sc.admin, &sc.q, &json!({"update_config": {"batch_period": 5, "monitors": mons2}}).to_string(), &[]);
            let c = cfg_of(&w, &sc.q);
            if b.get("stopped") != c.get("stopped") || c.get("stopped").and_then(|x| x.as_bool()) != Some(false) {
                report(acc, "UpdateConfig altered the halted flag of a running contract".into(), json!({"kind": "update-running", "cfg": serde_json::to_value(&cfg).unwrap()}));
            }
        }
        // (4) validators: add / remove exactly the named element
        {
            let mut w = sc.w.clone();
            let mut msgs: Vec<Value> = vec![];
            for _step in 0..10 {
                let vals = get_vals(&w, &sc.q);
                let fresh = addr20(&cfg.val_prefix, &format!("fresh{}", rng.below(4)));
                let (target, class): (String, &str) = match rng.below(7) {
                    0 if !vals.is_empty() => (rng.pick(&vals).clone(), "existing"),
                    1 => (addr20(&cfg.native_prefix, "wrongprefix"), "wrong-prefix"),
                    2 => {
                        let (c, _) = corrupt_str(&mut rng, &fresh);
                        (c, "corrupted")
                    }
                    3 if !vals.is_empty() => (rng.pick(&vals).to_uppercase(), "existing-upper"),
                    _ => (fresh.clone(), "fresh"),
                };
                let add = rng.chance(1, 2);
                let msg = if add { json!({"add_validator": {"new_validator": target}}) } else { json!({"remove_validator": {"validator": target}}) };
                msgs.push(msg.clone());
                let (ok, v) = validator_check(&mut w, &sc, &cfg, &msg);
                acc.seen("C14", &format!("val|{add}|{class}|{ok}|{}", vals.len().min(3)));
                acc.count(&format!("c14:validator_{}:{}", if add { "add" } else { "remove" }, if ok { "ok" } else { "fail" }));
                for e in v {
                    report(acc, e, json!({"kind": "validator", "cfg": serde_json::to_value(&cfg).unwrap(), "msgs": msgs}));
                }
            }
        }
        if acc.samples.is_empty() {
            acc.samples.push(json!({"lane": "c14", "valid_instantiate": valid}));
        }
    }
}

fn sc_resume(n: u128, l: u128, r: u128) -> String {
    json!({"resume_contract": {"total_native_token": n.to_string(), "total_liquid_stake_token": l.to_string(), "total_reward_amount": r.to_string()}}).to_string()
}

pub fn replay(case: &Value) -> Result<Vec<(String, String)>, String> {
    let kind = vs(case, "kind");
    let mut out = vec![];
    match kind.as_str() {
        "instantiate" => {
            let (_, v) = check_instantiate(&vs(case, "prefix"), case.get("msg").ok_or("msg")?);
            out.extend(v);
        }
        "update" | "validator" | "update-running" => {
            let cfg: Cfg = serde_json::from_value(case.get("cfg").cloned().ok_or("cfg")?).map_err(|e| e.to_string())?;
            let sc = Sc::new(&cfg).map_err(|r| r.err)?;
            let before = cfg_of(&sc.w, &sc.q);
            let mut w = sc.w.clone();
            if let Some(msgs) = case.get("msgs").and_then(|x| x.as_array()) {
                for m in msgs {
                    let (_, v) = validator_check(&mut w, &sc, &cfg, m);
                    out.extend(v);
                }
            } else if let Some(msg) = case.get("msg") {
                let r = w.exec(&sc.admin, &sc.q, &msg.to_string(), &[]);
                let after = cfg_of(&w, &sc.q);
                if r.ok {
                    let supplied = msg.get("update_config").and_then(|x| x.as_object()).cloned().unwrap_or_default();
                    let mut mask = 0u32;
                    for (bit, key) in ["native_chain_config", "protocol_chain_config", "protocol_fee_config", "monitors"].iter().enumerate() {
                        if supplied.contains_key(*key) {
                            mask |= 1 << bit;
                        }
                    }
                    for b in well_formed_sections(&after, mask) {
                        out.push(format!("accepted: {b}"));
                    }
                    if kind == "update" {
                        for key in ["native_chain_config", "protocol_chain_config", "protocol_fee_config", "monitors", "batch_period"] {
                            if !supplied.contains_key(key) && before.get(key) != after.get(key) {
                                out.push(format!("UpdateConfig changed the section '{key}' that was not supplied"));
                            }
                        }
                    }
                } else if before != after {
                    out.push("refused message changed the configuration".into());
                }
                if before.get("liquid_stake_token_denom") != after.get("liquid_stake_token_denom") || before.get("stopped") != after.get("stopped") {
                    out.push("LST denom or halted flag altered".into());
                }
            }
        }
        _ => return Err("unknown case kind".into()),
    }
    Ok(out.into_iter().map(|e| ("C14".to_string(), e)).collect())
}
