//! Lanes that probe sampled reachable states of random histories: C08 (authorization matrix),
//! C10 (circuit breaker differential), C17 (pagination / index).
use crate::gen::*;
use crate::hist::*;
use crate::obs::*;
use crate::prim::Rng;
use crate::scenario::*;
use crate::world::*;
use crate::{Acc, Args};
use serde_json::{json, Value};
use std::collections::BTreeSet;

pub type Probe = fn(&Run, &mut Rng, &mut Acc) -> Vec<String>;

fn prop_of(lane: &str) -> &'static str {
    match lane {
        "c08" => "C08",
        "c10" => "C10",
        _ => "C17",
    }
}

fn probe_of(lane: &str) -> Probe {
    match lane {
        "c08" => probe_c08,
        "c10" => probe_c10,
        _ => probe_c17,
    }
}

pub fn run(lane: &str, a: &Args, acc: &mut Acc) {
    let prop = prop_of(lane);
    let probe = probe_of(lane);
    let seed = a.u64("seed", 1);
    let shard = a.u64("shard", 0);
    let histories = a.u64("histories", 6);
    let steps = a.u64("steps", 120) as usize;
    let every = a.u64("every", 12) as usize;
    let budget = a.u64("budget-s", 0);
    let replay_dir = a.s("replay-dir", "/verif/replays");
    let start = std::time::Instant::now();
    let mut master = Rng::new(seed.wrapping_mul(0x9E3779B97F4A7C15) ^ (shard + 1).wrapping_mul(0xD1B54A32D192ED03) ^ crate::prim::fnv64(lane.as_bytes()));
    let mut h = 0u64;
    let mut sigs: BTreeSet<String> = BTreeSet::new();
    loop {
        if budget > 0 {
            if start.elapsed().as_secs() >= budget {
                break;
            }
        } else if h >= histories {
            break;
        }
        h += 1;
        let hseed = master.next();
        let mut crng = Rng::new(hseed);
        let mut cfg = Cfg::random(&mut crng);
        if lane == "c08" || lane == "c10" {
            cfg.n_monitors = crng.range(1, 3) as usize;
        }
        let mut run = match Run::new(&cfg, &[prop]) {
            Ok(r) => r,
            Err(_) => continue,
        };
        // fresh instance probe (C10: a new contract is halted)
        let mut vs_: Vec<String> = probe(&run, &mut crng, acc);
        let mut found_at = run.trace.len();
        if vs_.is_empty() {
            run.prologue();
            vs_ = probe(&run, &mut crng, acc);
            found_at = run.trace.len();
        }
        if lane == "c17" && vs_.is_empty() && h % 3 == 1 {
            deep_index(&mut run);
            vs_ = probe(&run, &mut crng, acc);
            found_at = run.trace.len();
        }
        if lane == "c17" && vs_.is_empty() && h % 3 == 2 {
            deep_queue(&mut run, 31 + (h % 5) * 25);
            vs_ = probe(&run, &mut crng, acc);
            found_at = run.trace.len();
        }
        let mut g = Gen::new(hseed ^ 0x5a5a, profile_for(prop, &mut crng));
        let mut k = 0;
        while vs_.is_empty() && k < steps {
            run.random_steps(&mut g, 1);
            k += 1;
            if lane == "c08" && k % 37 == 0 {
                // hand the contract over to a new admin mid-history
                handover(&mut run, &mut crng);
            }
            if k % every == 0 {
                vs_ = probe(&run, &mut crng, acc);
                found_at = run.trace.len();
            }
        }
        acc.count("histories");
        acc.add("steps", run.steps);
        for (k, v) in &run.model.counters {
            acc.add(k, *v);
        }
        for e in vs_ {
            let sig = crate::sig_of(&e);
            if sigs.insert(sig.clone()) && acc.violations.len() < 8 {
                let path = format!("{replay_dir}/{prop}-{lane}-{seed}-{shard}-{h}.json");
                let _ = std::fs::create_dir_all(&replay_dir);
                let doc = json!({"engine": "lane", "lane": lane, "props": [prop], "chain": format!("{:?}", ChainKind::built()), "case": {"cfg": serde_json::to_value(&run.sc.cfg).unwrap(), "admin": run.sc.admin, "trace": serde_json::to_value(&run.trace[..found_at]).unwrap(), "probe_seed": hseed}});
                let _ = std::fs::write(&path, doc.to_string());
                acc.violations.push(json!({"property": prop, "what": e, "sig": sig, "replay": path}));
            }
        }
        if acc.samples.len() < 2 {
            acc.samples.push(json!({"lane": lane, "cfg": serde_json::to_value(&run.sc.cfg).unwrap(), "steps_before_last_probe": run.steps, "last_ops": run.trace.iter().rev().take(4).collect::<Vec<_>>()}));
        }
    }
}

pub fn replay(lane: &str, case: &Value) -> Result<Vec<(String, String)>, String> {
    let prop = prop_of(lane);
    let cfg: Cfg = serde_json::from_value(case.get("cfg").cloned().ok_or("cfg")?).map_err(|e| e.to_string())?;
    let trace: Vec<Op> = serde_json::from_value(case.get("trace").cloned().ok_or("trace")?).map_err(|e| e.to_string())?;
    let mut run = Run::new(&cfg, &[prop]).map_err(|r| r.err)?;
    for op in trace {
        run.step(op);
    }
    if let Some(a) = case.get("admin").and_then(|x| x.as_str()) {
        run.sc.admin = a.to_string();
    }
    let mut rng = Rng::new(case.get("probe_seed").and_then(|x| x.as_u64()).unwrap_or(1));
    let mut acc = Acc::default();
    // the probe's own random choices are seeded; run it a few times to cover them
    let mut out = vec![];
    for _ in 0..4 {
        out.extend(probe_of(lane)(&run, &mut rng, &mut acc));
        if !out.is_empty() {
            break;
        }
    }
    Ok(out.into_iter().map(|e| (prop.to_string(), e)).collect())
}

/// two users leave open (unwithdrawn) requests in a dozen consecutive batches
fn deep_index(run: &mut Run) {
    let sc = run.sc.clone();
    let users = [sc.users[0].clone(), sc.users[1].clone()];
    if run.obs.stopped {
        let (n, l, r) = (run.obs.n, run.obs.l, run.obs.rewards);
        run.step(sc.resume(n, l, r));
    }
    for u in &users {
        if run.sc.w.bal(u, &sc.t) < 100 {
            let amt = run.obs.min_stake().max(1_000_000).min(1_000_000_000_000_000_000_000_000);
            run.step(Op::BankMint { addr: u.clone(), denom: sc.s.clone(), amount: amt });
            run.step(sc.stake(u, amt, None, None, None));
        }
    }
    for round in 0..13u64 {
        for u in &users {
            if run.sc.w.bal(u, &sc.t) > 0 {
                run.step(sc.unstake(u, 1 + (round as u128 % 2)));
            }
        }
        let due = run.obs.pending.next_time_s;
        let now = run.sc.w.now_s();
        if due > now {
            run.step(Op::Advance { secs: due - now });
        }
        run.step(sc.submit(&users[0]));
    }
    run.model.count("c17:deep_index_scenario");
}

/// `n` transfers to the staker outstanding at once (nothing relayed): the queue listing is longer than any
/// page size a reader is likely to have tried
fn deep_queue(run: &mut Run, n: u64) {
    let sc = run.sc.clone();
    let u = sc.users[0].clone();
    if run.obs.stopped {
        let (n, l, r) = (run.obs.n, run.obs.l, run.obs.rewards);
        run.step(sc.resume(n, l, r));
    }
    let amt = run.obs.min_stake().max(1_000).min(1_000_000_000_000_000_000_000_000);
    for _ in 0..n {
        run.step(Op::BankMint { addr: u.clone(), denom: sc.s.clone(), amount: amt });
        run.step(sc.stake(&u, amt, None, None, None));
    }
    run.model.count("c17:deep_queue_scenario");
    let len = run.obs.queue.len() as u64;
    *run.model.counters.entry("c17:deep_queue_packets".to_string()).or_insert(0) += len;
}

/// admin -> new admin (7 days later), tracked in run.sc.admin
fn handover(run: &mut Run, rng: &mut Rng) {
    let new = addr20(&run.sc.cfg.prefix, &format!("admin-gen{}", rng.below(1000)));
    let old = run.sc.admin.clone();
    let q = run.sc.q.clone();
    run.step(Op::exec(&old, &q, json!({"transfer_ownership": {"new_owner": new}}), vec![]));
    run.step(Op::Advance { secs: 7 * 24 * 3600 });
    let r = run.step(Op::exec(&new, &q, json!({"accept_ownership": {}}), vec![]));
    if r.ok {
        run.sc.admin = new;
        run.model.count("c08:handover");
    }
}

// =============================================================================== C17
fn ids_of(v: &Value) -> Vec<(u64, String)> {
    v.get("batches").and_then(|x| x.as_array()).map(|a| a.iter().map(|b| (vu64(b, "id"), vs(b, "status"))).collect()).unwrap_or_default()
}

pub fn probe_c17(run: &Run, rng: &mut Rng, acc: &mut Acc) -> Vec<String> {
    let sc = &run.sc;
    let mut out = vec![];
    let all_v = match sc.qy(json!({"batches": {}})) {
        Ok(v) => v,
        Err(e) => return vec![format!("unpaginated Batches query failed: {e}")],
    };
    let all = ids_of(&all_v);
    let n = all.len() as u32;
    let mut sorted = all.clone();
    sorted.sort();
    sorted.dedup_by_key(|x| x.0);
    if sorted != all {
        out.push(format!("unpaginated Batches is not ascending / unique: {all:?}"));
    }
    let filters: [(Value, Option<&str>); 4] = [(Value::Null, None), (json!("Pending"), Some("pending")), (json!("Submitted"), Some("submitted")), (json!("Received"), Some("received"))];
    for (fj, fs) in &filters {
        let reference: Vec<u64> = all.iter().filter(|(_, s)| fs.map(|f| s == f).unwrap_or(true)).map(|(i, _)| *i).collect();
        for limit in [None, Some(0u32), Some(1), Some(2), Some(3), Some(n.max(1)), Some(n + 1)] {
            let mut got: Vec<u64> = vec![];
            let mut cursor: Option<u64> = None;
            let mut pages = 0;
            loop {
                let page = match sc.qy(json!({"batches": {"start_after": cursor, "limit": limit, "status": fj}})) {
                    Ok(v) => ids_of(&v),
                    Err(e) => {
                        out.push(format!("Batches(start_after {cursor:?}, limit {limit:?}, status {fj}) failed: {e}"));
                        break;
                    }
                };
                pages += 1;
                if let Some(l) = limit {
                    if page.len() as u32 > l {
                        out.push(format!("Batches page has {} entries, limit {l}", page.len()));
                    }
                }
                if page.is_empty() {
                    break;
                }
                got.extend(page.iter().map(|x| x.0));
                cursor = page.last().map(|x| x.0);
                if limit.is_none() || pages > 10_000 {
                    break;
                }
            }
            if limit == Some(0) {
                if !got.is_empty() {
                    out.push("Batches with limit 0 returned entries".into());
                }
            } else if got != reference {
                out.push(format!("paging Batches with limit {limit:?} status {fj}: got {got:?}, full scan filtered gives {reference:?}"));
            }
            acc.seen("C17", &format!("page|{limit:?}|{:?}|{}|{}", fs, n.min(5), reference.len().min(4)));
        }
        // random cursor / limit
        for _ in 0..4 {
            let sa = rng.below(n as u64 + 2);
            let lim = rng.below(n as u64 + 2) as u32;
            let want: Vec<u64> = reference.iter().filter(|i| **i > sa).take(lim as usize).cloned().collect();
            match sc.qy(json!({"batches": {"start_after": sa, "limit": lim, "status": fj}})) {
                Ok(v) => {
                    let got: Vec<u64> = ids_of(&v).into_iter().map(|x| x.0).collect();
                    if got != want {
                        out.push(format!("Batches(start_after {sa}, limit {lim}, status {fj}) = {got:?}, reference {want:?}"));
                    }
                }
                Err(e) => out.push(format!("Batches query failed: {e}")),
            }
            acc.seen("C17", &format!("rnd|{}|{}|{:?}", (sa as i64 - n as i64).clamp(-3, 1), lim.min(4), fs));
        }
    }
    // BatchesByIds
    {
        let mut ids: Vec<u64> = vec![];
        for _ in 0..rng.range(0, 6) {
            ids.push(match rng.below(4) {
                0 => 0,
                1 => n as u64 + 1 + rng.below(3),
                _ => rng.range(1, n.max(1) as u64),
            });
        }
        let want: Vec<u64> = ids.iter().filter(|i| all.iter().any(|(j, _)| j == *i)).cloned().collect();
        match sc.qy(json!({"batches_by_ids": {"ids": ids}})) {
            Ok(v) => {
                let got: Vec<u64> = ids_of(&v).into_iter().map(|x| x.0).collect();
                if got != want {
                    out.push(format!("BatchesByIds({ids:?}) = {got:?}, existing requested ones are {want:?}"));
                }
                for b in v.get("batches").and_then(|x| x.as_array()).cloned().unwrap_or_default() {
                    let single = sc.qy(json!({"batch": {"id": vu64(&b, "id")}})).unwrap_or(Value::Null);
                    if single != b {
                        out.push(format!("BatchesByIds entry for {} differs from Batch query", vu64(&b, "id")));
                    }
                }
            }
            Err(e) => out.push(format!("BatchesByIds failed: {e}")),
        }
        acc.seen("C17", &format!("byids|{}|{}", ids.len(), want.len()));
    }
    // every batch of the full scan equals its single query
    for (i, _) in all.iter().take(6) {
        let single = sc.qy(json!({"batch": {"id": i}})).unwrap_or(Value::Null);
        let listed = all_v.get("batches").and_then(|x| x.as_array()).and_then(|a| a.iter().find(|b| vu64(b, "id") == *i)).cloned().unwrap_or(Value::Null);
        if single != listed {
            out.push(format!("Batch({i}) differs from its entry in Batches"));
        }
    }
    // IbcQueue paging
    {
        let full = queue_of(&sc.qy(json!({"ibc_queue": {}})).unwrap_or(Value::Null));
        let m = full.len() as u32;
        for limit in [Some(1u32), Some(2), Some(m.max(1)), Some(m + 1)] {
            let mut got: Vec<QObs> = vec![];
            let mut cursor: Option<u64> = None;
            let mut pages = 0;
            loop {
                let page = queue_of(&sc.qy(json!({"ibc_queue": {"start_after": cursor, "limit": limit}})).unwrap_or(Value::Null));
                pages += 1;
                if page.is_empty() || pages > 10_000 {
                    break;
                }
                cursor = page.last().map(|p| p.seq);
                got.extend(page);
            }
            if got != full {
                out.push(format!("paging IbcQueue with limit {limit:?}: {:?} vs full {:?}", got.iter().map(|p| p.seq).collect::<Vec<_>>(), full.iter().map(|p| p.seq).collect::<Vec<_>>()));
            }
            acc.seen("C17", &format!("queue|{limit:?}|{}", m.min(4)));
        }
        let seqs: Vec<u64> = full.iter().map(|p| p.seq).collect();
        let mut s2 = seqs.clone();
        s2.sort();
        s2.dedup();
        if s2 != seqs {
            out.push(format!("IbcQueue is not ascending / unique: {seqs:?}"));
        }
        // the queue lists exactly the simulator's open packets
        let open: Vec<u64> = sc.w.packets.values().filter(|p| p.sender == sc.q && p.channel == run.obs.channel() && (p.status == PStatus::InFlight || (p.status != PStatus::Acked && !run.model.consumed.contains(&(p.channel.clone(), p.seq))))).map(|p| p.seq).collect();
        if open != seqs {
            out.push(format!("IbcQueue lists {seqs:?}, the packet store has open {open:?}"));
        }
    }
    // per-user index against the reference model
    for u in sc.users.iter().chain(std::iter::once(&sc.contract_user)) {
        if let Ok(ans) = sc.qy(json!({"unstake_requests": {"user": u}})) {
            let got: Vec<(u64, u128)> = ans.as_array().map(|a| a.iter().map(|r| (vu64(r, "batch_id"), vu128(r, "amount"))).collect()).unwrap_or_default();
            let mut want: Vec<(u64, u128)> = run.model.reqs.iter().filter(|((_, x), r)| x == u && !r.withdrawn).map(|((b, _), r)| (*b, r.amount)).collect();
            want.sort();
            let mut g2 = got.clone();
            g2.sort();
            if g2 != want {
                out.push(format!("UnstakeRequests({u}) = {got:?}, open requests are {want:?}"));
            }
            for r in ans.as_array().cloned().unwrap_or_default() {
                if vs(&r, "user") != *u {
                    out.push(format!("UnstakeRequests({u}) returned a request of {}", vs(&r, "user")));
                }
            }
            acc.seen("C17", &format!("index|{}", want.len().min(4)));
        }
    }
    acc.count("c17:states_probed");
    if n >= 3 {
        acc.count("c17:states_with_3_batches");
    }
    out
}

// =============================================================================== C08
pub fn probe_c08(run: &Run, rng: &mut Rng, acc: &mut Acc) -> Vec<String> {
    let sc = &run.sc;
    let o = &run.obs;
    let mut out = vec![];
    let q = &sc.q;
    let s = &sc.s;
    let admin = sc.admin.clone();
    let original_admin = addr20(&sc.cfg.prefix, &format!("admin{}", sc.cfg.salt));
    let mons: Vec<String> = o.cfg.get("monitors").and_then(|x| x.as_array()).map(|a| a.iter().map(|x| x.as_str().unwrap_or("").to_string()).collect()).unwrap_or_default();
    let former_monitor = sc.monitors.iter().find(|m| !mons.contains(m)).cloned();
    let staker_hook = hook_sender(&o.channel(), &o.staker(), &sc.w.prefix);
    let reward_hook = hook_sender(&o.channel(), &o.collector(), &sc.w.prefix);
    let claimant = run.model.reqs.iter().find(|(_, r)| !r.withdrawn).map(|((_, u), _)| u.clone());
    let nominee = addr20(&sc.cfg.prefix, "the-nominee");
    let mut principals: Vec<(&str, String)> = vec![
        ("admin", admin.clone()),
        ("nominee", nominee.clone()),
        ("staker-hook", staker_hook.clone()),
        ("reward-hook", reward_hook.clone()),
        ("contract-itself", q.clone()),
        ("user", sc.users[sc.users.len() - 1].clone()),
        ("contract-user", sc.contract_user.clone()),
    ];
    if original_admin != admin {
        principals.push(("former-admin", original_admin.clone()));
    }
    for m in &mons {
        principals.push(("monitor", m.clone()));
    }
    if let Some(m) = former_monitor {
        principals.push(("former-monitor", m));
    }
    if let Some(t) = &sc.treasury {
        principals.push(("treasury", t.clone()));
    }
    if let Some(x) = &sc.oracle {
        principals.push(("oracle", x.clone()));
    }
    if let Some(c) = claimant {
        principals.push(("claimant", c));
    }
    // a world in which a nomination is pending and ripe, so that AcceptOwnership is valid for the nominee
    let mut base = sc.w.clone();
    let _ = base.exec(&admin, q, &json!({"transfer_ownership": {"new_owner": nominee}}).to_string(), &[]);
    base.advance(7 * 24 * 3600);
    // arguments that are valid for the rightful caller in this state
    let refundable: Vec<u64> = o.queue.iter().filter(|p| p.status != "sent" && p.receiver == o.staker()).map(|p| p.seq).collect();
    let inflight: Vec<u64> = o.queue.iter().filter(|p| p.status == "sent" && p.receiver == o.staker()).map(|p| p.seq).collect();
    let ripe = o.batches.iter().find(|b| b.status == "submitted").cloned();
    if let Some(b) = &ripe {
        if base.now_s() < b.next_time_s {
            base.advance(b.next_time_s - base.now_s());
        }
    }
    let newval = addr20(&sc.cfg.val_prefix, "matrix-validator");
    let existing_val = o.cfg.get("native_chain_config").and_then(|n| n.get("validators")).and_then(|x| x.as_array()).and_then(|a| a.first()).and_then(|x| x.as_str()).map(|x| x.to_string());
    let mut variants: Vec<(&str, Value, Vec<(String, u128)>, Vec<&str>)> = vec![
        ("add_validator", json!({"add_validator": {"new_validator": newval}}), vec![], vec!["admin"]),
        ("update_config", json!({"update_config": {"batch_period": 4242}}), vec![], vec!["admin"]),
        ("transfer_ownership", json!({"transfer_ownership": {"new_owner": sc.users[0]}}), vec![], vec!["admin"]),
        ("revoke_ownership_transfer", json!({"revoke_ownership_transfer": {}}), vec![], vec!["admin"]),
        ("resume_contract", json!({"resume_contract": {"total_native_token": o.n.to_string(), "total_liquid_stake_token": o.l.to_string(), "total_reward_amount": o.rewards.to_string()}}), vec![], vec!["admin"]),
        ("circuit_breaker", json!({"circuit_breaker": {}}), vec![], vec!["admin", "monitor"]),
        ("accept_ownership", json!({"accept_ownership": {}}), vec![], vec!["nominee"]),
        ("receive_rewards", json!({"receive_rewards": {}}), vec![(s.clone(), 1000)], vec!["reward-hook"]),
    ];
    if let Some(v) = existing_val {
        variants.push(("remove_validator", json!({"remove_validator": {"validator": v}}), vec![], vec!["admin"]));
    }
    if o.treasury().is_some() && run.model.fees_backed >= 0 && o.fees as i128 >= run.model.fees_backed {
        variants.push(("fee_withdraw", json!({"fee_withdraw": {"amount": (run.model.fees_backed.max(0) as u128 / 2).to_string()}}), vec![], vec!["admin"]));
    }
    if !refundable.is_empty() {
        variants.push(("recover_forced", json!({"recover_pending_ibc_transfers": {"paginated": null, "selected_packets": refundable, "receiver": null}}), vec![], vec!["admin"]));
        variants.push(("recover_forced_one", json!({"recover_pending_ibc_transfers": {"paginated": null, "selected_packets": [refundable[0]], "receiver": null}}), vec![], vec!["admin"]));
    }
    if !inflight.is_empty() {
        variants.push(("recover_forced_inflight", json!({"recover_pending_ibc_transfers": {"paginated": null, "selected_packets": [inflight[0]], "receiver": null}}), vec![], vec!["admin"]));
    }
    if let Some(b) = &ripe {
        variants.push(("receive_unstaked_tokens", json!({"receive_unstaked_tokens": {"batch_id": b.id}}), vec![(s.clone(), b.expected.max(1))], vec!["staker-hook"]));
    }
    for (name, msg, funds, allowed) in &variants {
        for (role, who) in &principals {
            let mut w = base.clone();
            for (d, a) in funds {
                w.mint_raw(who, d, *a);
            }
            if name.starts_with("recover_forced") {
                // so that a wrongful re-send cannot hide behind an insufficient-funds rollback
                let need: u128 = o.queue.iter().map(|p| p.amount).sum();
                w.mint_raw(q, s, need);
                w.mint_raw(q, &sc.t, need);
            }
            let before = w.clone();
            let r = w.exec(who, q, &msg.to_string(), funds);
            // roles are by address: the same address may hold several roles (e.g. claimant == user)
            let authorised = principals.iter().any(|(r2, w2)| w2 == who && allowed.contains(r2));
            acc.seen("C08", &format!("{name}|{role}|{}|{}", r.ok, o.stopped));
            if !r.panics.is_empty() {
                out.push(format!("{name} by {role} panicked: {:?}", r.panics));
            }
            if !authorised {
                if r.ok {
                    out.push(format!("{name} succeeded for {role} ({who}); only {allowed:?} may call it"));
                } else if let Some(d) = before.same_state(&w) {
                    out.push(format!("refused {name} by {role} changed state: {d}"));
                }
                acc.count("c08:unauthorised_refused");
            } else if r.ok {
                acc.count(&format!("c08:rightful_ok:{name}"));
            } else {
                acc.count(&format!("c08:rightful_failed:{name}"));
                if r.err.contains("nauthorized") || r.err.contains("not admin") || r.err.contains("Caller is not") {
                    out.push(format!("{name} refused for the rightful {role} with an authorization error: {}", r.err));
                }
            }
        }
    }
    // a revoked nomination cannot be accepted by anybody (the nominee included), at any time
    {
        let mut w = sc.w.clone();
        let r1 = w.exec(&admin, q, &json!({"transfer_ownership": {"new_owner": nominee}}).to_string(), &[]);
        let r2 = w.exec(&admin, q, &json!({"revoke_ownership_transfer": {}}).to_string(), &[]);
        if r1.ok && r2.ok {
            for wait in [0u64, 7 * 24 * 3600] {
                w.advance(wait);
                for (role, who) in &principals {
                    let mut w2 = w.clone();
                    let r = w2.exec(who, q, &json!({"accept_ownership": {}}).to_string(), &[]);
                    acc.seen("C08", &format!("accept_after_revoke|{role}|{}", r.ok));
                    if r.ok {
                        out.push(format!("AcceptOwnership succeeded for {role} ({who}) after the nomination was revoked"));
                    }
                }
            }
            acc.count("c08:accept_after_revoke");
        }
    }
    // Withdraw only ever pays the caller's own request
    for b in o.batches.iter().filter(|b| b.status == "received").take(3) {
        for (role, who) in &principals {
            let mut w = sc.w.clone();
            let r = w.exec(who, q, &json!({"withdraw": {"batch_id": b.id}}).to_string(), &[]);
            let own = run.model.reqs.get(&(b.id, who.clone())).map(|r| !r.withdrawn).unwrap_or(false);
            acc.seen("C08", &format!("withdraw|{role}|{}|{own}", r.ok));
            if r.ok {
                if !own {
                    out.push(format!("Withdraw from batch {} succeeded for {role} ({who}) who has no open request in it", b.id));
                }
                for e in &r.events {
                    if let Ev::BankSend { from, to, denom, .. } = e {
                        if from == q && denom == s && to != who {
                            out.push(format!("Withdraw by {who} paid {to}"));
                        }
                    }
                }
            }
        }
    }
    let _ = rng;
    acc.count("c08:states_probed");
    out
}

// =============================================================================== C10
pub fn probe_c10(run: &Run, rng: &mut Rng, acc: &mut Acc) -> Vec<String> {
    let sc = &run.sc;
    let o = &run.obs;
    let mut out = vec![];
    let q = &sc.q;
    let fresh = run.trace.is_empty();
    if fresh {
        if !o.stopped {
            out.push("a newly instantiated contract is not halted".into());
        }
        acc.count("c10:fresh_instance");
    }
    // ---- trip the breaker on clone A (by the admin or a monitor); B keeps running
    let mons: Vec<String> = o.cfg.get("monitors").and_then(|x| x.as_array()).map(|a| a.iter().map(|x| x.as_str().unwrap_or("").to_string()).collect()).unwrap_or_default();
    let mut b = sc.w.clone();
    if o.stopped {
        // make B a running world with the same totals
        let r = b.exec(&sc.admin, q, &sc_resume(o.n, o.l, o.rewards), &[]);
        if !r.ok {
            return out;
        }
    }
    let tripper = if !mons.is_empty() && rng.chance(2, 3) { rng.pick(&mons).clone() } else { sc.admin.clone() };
    // every second probe has an ownership nomination pending when the breaker is tripped
    if o.pending_owner.is_empty() && rng.chance(1, 2) {
        let nominee = addr20(&sc.cfg.prefix, &format!("c10-nominee{}", rng.below(1000)));
        if b.exec(&sc.admin, q, &json!({"transfer_ownership": {"new_owner": nominee}}).to_string(), &[]).ok {
            acc.count("c10:halt_with_pending_owner");
        }
    }
    let mut a = b.clone();
    let obs_b = {
        let mut s2 = sc.clone();
        s2.w = b.clone();
        Obs::take(&s2)
    };
    let r = a.exec(&tripper, q, &json!({"circuit_breaker": {}}).to_string(), &[]);
    if !r.ok {
        out.push(format!("CircuitBreaker by {} ({tripper}) refused: {}", if tripper == sc.admin { "the admin" } else { "a monitor" }, r.err));
        return out;
    }
    acc.count(if tripper == sc.admin { "c10:halt_by_admin" } else { "c10:halt_by_monitor" });
    // halting changes nothing but the flag
    {
        let mut s2 = sc.clone();
        s2.w = a.clone();
        let oa = Obs::take(&s2);
        let mut ca = oa.cfg.clone();
        let mut cb = obs_b.cfg.clone();
        if let (Some(x), Some(y)) = (ca.as_object_mut(), cb.as_object_mut()) {
            x.remove("stopped");
            y.remove("stopped");
        }
        if !oa.stopped {
            out.push("after CircuitBreaker the contract is not halted".into());
        }
        if ca != cb || oa.n != obs_b.n || oa.l != obs_b.l || oa.fees != obs_b.fees || oa.rewards != obs_b.rewards || oa.pending_owner != obs_b.pending_owner || oa.batches != obs_b.batches || oa.queue != obs_b.queue || oa.reply_queue != obs_b.reply_queue {
            out.push("CircuitBreaker changed something besides the halted flag".into());
        }
        // raw storage: only one key may differ
        let sa = &a.contracts.get(q).unwrap().store.m;
        let sb = &b.contracts.get(q).unwrap().store.m;
        let diff: Vec<String> = sa.iter().filter(|(k, v)| sb.get(*k) != Some(*v)).map(|(k, _)| String::from_utf8_lossy(k).to_string()).chain(sb.keys().filter(|k| !sa.contains_key(*k)).map(|k| String::from_utf8_lossy(k).to_string())).collect();
        if diff.len() > 1 {
            out.push(format!("CircuitBreaker wrote {} storage keys: {diff:?}", diff.len()));
        }
        let mut a2 = a.clone();
        a2.contracts.get_mut(q).unwrap().store = b.contracts.get(q).unwrap().store.clone();
        if let Some(d) = a2.same_state(&b) {
            out.push(format!("CircuitBreaker moved tokens or packets: {d}"));
        }
    }
    // ---- every configured monitor can halt, also after the admin has replaced the monitor list
    {
        let mut w = b.clone();
        let fresh: Vec<String> = {
            // three, two, one or no monitors at all
            let mut v: Vec<String> = (0..(3 - rng.below(4).min(3) % 4)).map(|i| addr20(&sc.cfg.prefix, &format!("halt-monitor-{}-{}", i, rng.below(1000)))).collect();
            // arbitrary (unsorted) order
            if rng.chance(1, 2) {
                v.reverse();
            }
            if !v.is_empty() {
                let k = rng.below(v.len() as u64) as usize;
                v.rotate_left(k);
            }
            v
        };
        let use_new = rng.chance(1, 2);
        let list = if use_new {
            let r = w.exec(&sc.admin, q, &json!({"update_config": {"monitors": fresh}}).to_string(), &[]);
            if r.ok { fresh.clone() } else { mons.clone() }
        } else {
            mons.clone()
        };
        for m in &list {
            let mut w2 = w.clone();
            let r = w2.exec(m, q, &json!({"circuit_breaker": {}}).to_string(), &[]);
            acc.seen("C10", &format!("monitor-halts|{use_new}|{}|{}", list.len(), r.ok));
            if !r.ok {
                out.push(format!("configured monitor {m} ({} of {} in the list{}) cannot halt the contract: {}", list.iter().position(|x| x == m).unwrap_or(0) + 1, list.len(), if use_new { ", list just replaced by the admin" } else { "" }, r.err));
            }
        }
        if use_new {
            // the replaced monitors lost the right
            for m in mons.iter().filter(|m| !list.contains(m)) {
                let mut w2 = w.clone();
                if w2.exec(m, q, &json!({"circuit_breaker": {}}).to_string(), &[]).ok {
                    out.push(format!("former monitor {m} can still halt the contract after the list was replaced"));
                }
            }
            acc.count("c10:monitors_replaced");
        }
    }
    // ---- the six value-moving messages, with arguments for which the running clone succeeds
    let user = sc.users[0].clone();
    let holder = sc.users.iter().find(|u| b.bal(u, &sc.t) > 0).cloned();
    let claim = run.model.reqs.iter().find(|((bid, _), r)| !r.withdrawn && obs_b.batches.iter().any(|x| x.id == *bid && x.status == "received")).map(|((bid, u), _)| (*bid, u.clone()));
    let ripe = obs_b.batches.iter().find(|x| x.status == "submitted").cloned();
    let mut cases: Vec<(&str, u64, Box<dyn Fn(&mut World) -> TxResult>)> = vec![];
    {
        let (u, qq, s, amt) = (user.clone(), q.clone(), sc.s.clone(), obs_b.min_stake().max(1000).min(1_000_000_000_000_000_000_000_000));
        cases.push(("liquid_stake", 0, Box::new(move |w: &mut World| {
            w.mint_raw(&u, &s, amt);
            w.exec(&u, &qq, &json!({"liquid_stake": {"mint_to": null, "transfer_to_native_chain": null, "expected_mint_amount": null}}).to_string(), &[(s.clone(), amt)])
        })));
    }
    if let Some(h) = holder {
        let (qq, t) = (q.clone(), sc.t.clone());
        cases.push(("liquid_unstake", 0, Box::new(move |w: &mut World| w.exec(&h, &qq, &json!({"liquid_unstake": {}}).to_string(), &[(t.clone(), 1)]))));
    }
    if obs_b.pending.count > 0 {
        let (u, qq) = (user.clone(), q.clone());
        let wait = obs_b.pending.next_time_s.saturating_sub(b.now_s());
        cases.push(("submit_batch", wait, Box::new(move |w: &mut World| w.exec(&u, &qq, &json!({"submit_batch": {}}).to_string(), &[]))));
        // "all" operations: the halt holds for privileged senders as well (the admin, a configured monitor)
        let mut privileged = vec![("submit_batch:admin", sc.admin.clone())];
        if let Some(m) = obs_b.monitors().first() {
            privileged.push(("submit_batch:monitor", m.clone()));
        }
        for (nm, who) in privileged {
            let qq = q.clone();
            cases.push((nm, wait, Box::new(move |w: &mut World| w.exec(&who, &qq, &json!({"submit_batch": {}}).to_string(), &[]))));
        }
    }
    {
        // a stake paid by the admin / a monitor
        let mut privileged = vec![("liquid_stake:admin", sc.admin.clone())];
        if let Some(m) = obs_b.monitors().first() {
            privileged.push(("liquid_stake:monitor", m.clone()));
        }
        for (nm, who) in privileged {
            let (qq, s, amt) = (q.clone(), sc.s.clone(), obs_b.min_stake().max(1000).min(1_000_000_000_000_000_000_000_000));
            cases.push((nm, 0, Box::new(move |w: &mut World| {
                w.mint_raw(&who, &s, amt);
                w.exec(&who, &qq, &json!({"liquid_stake": {"mint_to": null, "transfer_to_native_chain": null, "expected_mint_amount": null}}).to_string(), &[(s.clone(), amt)])
            })));
        }
    }
    if let Some((bid, u)) = claim {
        let qq = q.clone();
        cases.push(("withdraw", 0, Box::new(move |w: &mut World| w.exec(&u, &qq, &json!({"withdraw": {"batch_id": bid}}).to_string(), &[]))));
    }
    if obs_b.l > 0 {
        let (coll, ch, qq) = (obs_b.collector(), obs_b.channel(), q.clone());
        cases.push(("receive_rewards", 0, Box::new(move |w: &mut World| {
            w.native_mint(&coll, NATIVE_DENOM, 1000);
            w.hook_transfer(&coll, &ch, 1000, &qq, &json!({"receive_rewards": {}}).to_string())
        })));
    }
    if let Some(bt) = ripe {
        let (st, ch, qq) = (obs_b.staker(), obs_b.channel(), q.clone());
        let wait = bt.next_time_s.saturating_sub(b.now_s());
        let amt = bt.expected.max(1);
        cases.push(("receive_unstaked_tokens", wait, Box::new(move |w: &mut World| {
            w.native_mint(&st, NATIVE_DENOM, amt);
            w.hook_transfer(&st, &ch, amt, &qq, &json!({"receive_unstaked_tokens": {"batch_id": bt.id}}).to_string())
        })));
    }
    for (name, wait, f) in cases {
        let mut wa = a.clone();
        let mut wb = b.clone();
        wa.advance(wait);
        wb.advance(wait);
        let before_a = wa.clone();
        let rb = f(&mut wb);
        let ra = f(&mut wa);
        if !rb.ok {
            acc.count(&format!("c10:vacuous:{name}"));
            continue;
        }
        acc.count(&format!("c10:running_clone_succeeds:{name}"));
        acc.seen("C10", &format!("{name}|{}|{}|{}|{}|{}", tripper == sc.admin, crate::model::regime(obs_b.n, obs_b.l), obs_b.batches.len().min(4), obs_b.queue.len().min(3), crate::model::mag(obs_b.n)));
        if ra.ok {
            out.push(format!("{name} succeeded while the contract is halted (it also succeeds when running)"));
        } else {
            // no effect: the only differences to the pre-state are the harness's own faucet mints
            let mut cmp = before_a.clone();
            cmp.bank = wa.bank.clone();
            cmp.supply = wa.supply.clone();
            cmp.native = wa.native.clone();
            if let Some(d) = cmp.same_state(&wa) {
                out.push(format!("{name} failed while halted but changed state: {d}"));
            }
            if wa.contracts.get(q).unwrap().store != before_a.contracts.get(q).unwrap().store {
                out.push(format!("{name} failed while halted but wrote storage"));
            }
        }
    }
    // ---- resume: only the admin; sets exactly the three totals and nothing else
    {
        let l = match rng.below(3) {
            0 => obs_b.l,
            1 => 0,
            _ => 1 + rng.below128(1_000_000_000_000_000_000_000_000),
        };
        let n = if l == 0 { rng.below128(1_000_000) } else { (l / 1000).max(1) + rng.below128(l.saturating_mul(999).min(1_000_000_000_000_000_000_000_000_000)) };
        let n = if l > 0 { n.clamp((l / 1000).max(1), l.saturating_mul(1000)) } else { n };
        // (zero is a value like any other: the reward total is then SET to zero)
        let rw = if rng.chance(1, 3) { 0 } else { rng.below128(1_000_000_000_000_000_000_000_000_000) };
        let msg = sc_resume(n, l, rw);
        for who in mons.iter().chain([sc.users[1].clone(), q.clone()].iter()) {
            let mut w = a.clone();
            let r = w.exec(who, q, &msg, &[]);
            if r.ok {
                out.push(format!("ResumeContract succeeded for non-admin {who}"));
            }
        }
        let mut w = a.clone();
        let r = w.exec(&sc.admin, q, &msg, &[]);
        if !r.ok {
            out.push(format!("ResumeContract({n}, {l}, {rw}) by the admin refused: {}", r.err));
        } else {
            let mut s2 = sc.clone();
            s2.w = w.clone();
            let oa = Obs::take(&s2);
            let mut ca = oa.cfg.clone();
            let mut cb = obs_b.cfg.clone();
            if let (Some(x), Some(y)) = (ca.as_object_mut(), cb.as_object_mut()) {
                x.remove("stopped");
                y.remove("stopped");
            }
            if oa.stopped {
                out.push("after ResumeContract the contract is still halted".into());
            }
            if oa.state_ok && (oa.n != n || oa.l != l || oa.rewards != rw) {
                out.push(format!("ResumeContract({n}, {l}, {rw}) left totals {} / {} / {}", oa.n, oa.l, oa.rewards));
            }
            if ca != cb || (oa.state_ok && (oa.fees != obs_b.fees || oa.pending_owner != obs_b.pending_owner)) || oa.batches != obs_b.batches || oa.queue != obs_b.queue {
                out.push("ResumeContract changed something besides the halted flag and the three totals".into());
            }
            let mut w2 = w.clone();
            w2.contracts.get_mut(q).unwrap().store = a.contracts.get(q).unwrap().store.clone();
            let mut a3 = a.clone();
            a3.bank = w2.bank.clone();
            if let Some(d) = w2.same_state(&a) {
                out.push(format!("ResumeContract moved tokens or packets: {d}"));
            }
            acc.seen("C10", &format!("resume|{}|{}", l == 0, crate::model::regime(n, l)));
            acc.count("c10:resume_checked");
        }
    }
    acc.count("c10:states_probed");
    out
}

fn sc_resume(n: u128, l: u128, r: u128) -> String {
    json!({"resume_contract": {"total_native_token": n.to_string(), "total_liquid_stake_token": l.to_string(), "total_reward_amount": r.to_string()}}).to_string()
}
