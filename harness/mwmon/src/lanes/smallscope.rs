//! Small-scope interleaving enumeration: ALL sequences up to a bounded depth over a compact alphabet of
//! state-dependent operations (two users, one native recipient, operator, relayer with the three IBC
//! outcomes, recoveries), explored by DFS on clones with the history monitors of the selected
//! property evaluated after every step. Complements the random histories with systematic orders.
use crate::hist::*;
use crate::scenario::*;
use crate::world::*;
use crate::{Acc, Args};
use serde_json::json;

fn applicable(run: &Run) -> Vec<(&'static str, Vec<Op>)> {
    let sc = &run.sc;
    let o = &run.obs;
    let u0 = sc.users[0].clone();
    let u1 = sc.users[1].clone();
    let na = sc.native_users[0].clone();
    let ch = o.channel();
    let staker = o.staker();
    let coll = o.collector();
    let mut v: Vec<(&'static str, Vec<Op>)> = vec![];
    v.push(("stake0", vec![sc.stake(&u0, 1000, None, None, None)]));
    v.push(("stake1n", vec![sc.stake(&u1, 777, Some(&na), Some(true), None)]));
    let b0 = sc.w.bal(&u0, &sc.t);
    if b0 > 1 {
        v.push(("unstake0", vec![sc.unstake(&u0, b0 / 2)]));
    }
    let b1 = sc.w.bal(&u1, &sc.t);
    if b1 > 0 {
        v.push(("unstake1", vec![sc.unstake(&u1, b1)]));
    } else if b0 > 0 {
        v.push(("unstake0all", vec![sc.unstake(&u0, b0)]));
    }
    if o.pending.count > 0 {
        let now = sc.w.now_s();
        let mut ops = vec![];
        if o.pending.next_time_s > now {
            ops.push(Op::Advance { secs: o.pending.next_time_s - now });
        }
        ops.push(sc.submit(&u1));
        v.push(("submit", ops));
    }
    if let Some(b) = o.batches.iter().find(|b| b.status == "submitted") {
        let now = sc.w.now_s();
        let mut pre = vec![];
        if b.next_time_s > now {
            pre.push(Op::Advance { secs: b.next_time_s - now });
        }
        let mut exact = pre.clone();
        exact.push(sc.deliver(&staker, &ch, b.id, b.expected.max(1)));
        v.push(("deliver", exact));
        if b.expected > 5 {
            let mut short = pre.clone();
            short.push(Op::NativeBurn { addr: staker.clone(), amount: 5 });
            short.push(sc.deliver(&staker, &ch, b.id, b.expected - 5));
            v.push(("deliver_short", short));
        }
    }
    for (name, u) in [("withdraw0", &u0), ("withdraw1", &u1)] {
        if let Some(((b, _), _)) = run.model.reqs.iter().find(|((b, x), r)| x == u && !r.withdrawn && o.batches.iter().any(|y| y.id == *b && y.status == "received")) {
            v.push((name, vec![sc.withdraw(u, *b)]));
        }
    }
    if o.l > 0 {
        v.push(("reward", vec![Op::NativeMint { addr: coll.clone(), amount: 100 }, sc.reward(&coll, &ch, 100)]));
    }
    let inflight: Vec<&Packet> = sc.w.packets.values().filter(|p| p.status == PStatus::InFlight && p.sender == sc.q).collect();
    if let Some(p) = inflight.first() {
        v.push(("ack_oldest", vec![Op::Relay { channel: p.channel.clone(), seq: p.seq, outcome: "ack".into() }]));
        v.push(("err_oldest", vec![Op::Relay { channel: p.channel.clone(), seq: p.seq, outcome: "err".into() }]));
    }
    if let Some(p) = inflight.last() {
        if inflight.len() > 1 {
            v.push(("ack_newest", vec![Op::Relay { channel: p.channel.clone(), seq: p.seq, outcome: "ack".into() }]));
        }
        let mut ops = vec![];
        if sc.w.now_ns <= p.timeout_ns {
            ops.push(Op::Advance { secs: (p.timeout_ns - sc.w.now_ns) / 1_000_000_000 + 1 });
        }
        ops.push(Op::Relay { channel: p.channel.clone(), seq: p.seq, outcome: "timeout".into() });
        v.push(("timeout_newest", ops));
    }
    if o.queue.iter().any(|p| p.status != "sent") {
        v.push(("recover", vec![sc.recover(&u0, None, None, None)]));
        if o.queue.iter().any(|p| p.status != "sent" && p.receiver == na) {
            v.push(("recover_na", vec![sc.recover(&u1, Some(true), None, Some(&na))]));
        }
    }
    v
}

struct Ctx<'a> {
    acc: &'a mut Acc,
    prop: &'static str,
    viols: Vec<(Vec<Op>, String)>,
    nodes: u64,
    leaves: u64,
    max: usize,
}

fn dfs(run: &Run, depth: usize, path: &mut Vec<&'static str>, ctx: &mut Ctx) {
    if depth == ctx.max {
        ctx.leaves += 1;
        if let Some(d) = run.model.distinct.get(ctx.prop) {
            ctx.acc.distinct.entry(ctx.prop.to_string()).or_default().extend(d.iter());
        }
        return;
    }
    for (name, ops) in applicable(run) {
        let mut r = run.clone();
        r.steps(ops);
        ctx.nodes += 1;
        let delta = r.model.evals.get(ctx.prop).copied().unwrap_or(0) - run.model.evals.get(ctx.prop).copied().unwrap_or(0);
        *ctx.acc.evals.entry(ctx.prop.to_string()).or_insert(0) += delta;
        if let Some(v) = r.viols.iter().find(|v| v.prop == ctx.prop) {
            if ctx.viols.len() < 10 {
                ctx.viols.push((r.trace.clone(), format!("{} (after the sequence {:?} + {name})", v.what, path)));
            }
            continue;
        }
        path.push(name);
        dfs(&r, depth + 1, path, ctx);
        path.pop();
        if ctx.viols.len() >= 10 {
            return;
        }
    }
}

pub fn run(a: &Args, acc: &mut Acc) {
    let prop = crate::intern(&a.s("prop", "C01"));
    let seed = a.u64("seed", 1);
    let shard = a.u64("shard", 0);
    let nshards = a.u64("nshards", 1);
    let depth = a.u64("depth", 5) as usize;
    let replay_dir = a.s("replay-dir", "/verif/replays");
    let mut cfgs = vec![];
    for (treasury, fee) in [(true, 10_000u128), (false, 33_333u128)] {
        let mut cfg = Cfg::default_cfg();
        cfg.salt = seed % 1000;
        cfg.min_stake = 1;
        cfg.batch_period = 100;
        cfg.unbonding = 1000;
        cfg.treasury = treasury;
        cfg.fee_rate = fee;
        cfg.oracle = treasury;
        cfgs.push(cfg);
    }
    let mut job = 0u64;
    let mut all_viols: Vec<(Cfg, Vec<Op>, String)> = vec![];
    let mut nodes = 0u64;
    let mut leaves = 0u64;
    for cfg in cfgs {
        let Ok(mut base) = Run::new(&cfg, &[prop]) else { continue };
        let sc = base.sc.clone();
        base.step(sc.resume(0, 0, 0));
        for u in sc.users.iter().take(2) {
            base.step(Op::BankMint { addr: u.clone(), denom: sc.s.clone(), amount: 1_000_000 });
        }
        // a first stake so that every branch starts with value in the system, then the first two
        // operations partition the work over the shards
        base.step(sc.stake(&sc.users[0], 5000, None, None, None));
        for (n1, ops1) in applicable(&base) {
            let mut r1 = base.clone();
            r1.steps(ops1);
            for (n2, ops2) in applicable(&r1) {
                job += 1;
                if job % nshards != shard {
                    continue;
                }
                let mut r2 = r1.clone();
                r2.steps(ops2);
                let mut ctx = Ctx { acc: &mut *acc, prop, viols: vec![], nodes: 0, leaves: 0, max: depth };
                if let Some(v) = r2.viols.iter().find(|v| v.prop == prop) {
                    ctx.viols.push((r2.trace.clone(), v.what.clone()));
                } else {
                    let mut path = vec![n1, n2];
                    dfs(&r2, 2, &mut path, &mut ctx);
                }
                nodes += ctx.nodes;
                leaves += ctx.leaves;
                for (t, w) in std::mem::take(&mut ctx.viols) {
                    all_viols.push((cfg.clone(), t, w));
                }
            }
        }
    }
    acc.add("smallscope:nodes", nodes);
    acc.add("smallscope:sequences", leaves);
    acc.notes.push(format!("small-scope enumeration: every applicable operation at every node to depth {depth} (after a fixed first stake), two configurations"));
    if acc.samples.is_empty() {
        acc.samples.push(json!({"lane": "smallscope", "depth": depth, "alphabet": ["stake0", "stake1n", "unstake0", "unstake1", "submit", "deliver", "deliver_short", "withdraw0", "withdraw1", "reward", "ack_oldest", "err_oldest", "ack_newest", "timeout_newest", "recover", "recover_na"]}));
    }
    let mut seen = std::collections::BTreeSet::new();
    for (cfg, trace, what) in all_viols {
        let sig = crate::sig_of(&what);
        if seen.insert(sig.clone()) && acc.violations.len() < 6 {
            let path = format!("{replay_dir}/{prop}-small-{seed}-{shard}-{}.json", acc.violations.len());
            let doc = json!({"engine": "hist", "seed": seed, "chain": format!("{:?}", ChainKind::built()), "cfg": serde_json::to_value(&cfg).unwrap(), "props": [prop], "trace": serde_json::to_value(&trace).unwrap(), "violations": [{"property": prop, "what": what}]});
            let _ = std::fs::create_dir_all(&replay_dir);
            let _ = std::fs::write(&path, doc.to_string());
            acc.violations.push(json!({"property": prop, "what": what, "sig": sig, "replay": path}));
        }
    }
}
