//! C07 fault-enumeration lane: for k outstanding packets of two denoms and several receivers,
//! ALL assignments of {success ack, error ack, timeout} x ALL delivery orders x (recovery or not
//! after each delivery) x final recovery flavour, explored by DFS on clones, with the C07
//! packet-history monitors evaluated after every step.
use crate::hist::*;
use crate::scenario::*;
use crate::world::*;
use crate::{Acc, Args};
use serde_json::{json, Value};

fn compositions(k: usize) -> Vec<Vec<&'static str>> {
    // "p": stake to a protocol recipient (1 packet: staked asset -> staker)
    // "A"/"B": stake to native recipient A/B (2 packets: staked asset -> staker, LST -> recipient)
    // "S": stake with the staker itself as native recipient (2 packets, same receiver, two denoms)
    match k {
        1 => vec![vec!["p"]],
        2 => vec![vec!["p", "p"], vec!["A"], vec!["S"]],
        3 => vec![vec!["p", "A"], vec!["S", "p"], vec!["p", "p", "p"]],
        4 => vec![vec!["A", "B"], vec!["A", "A"], vec!["S", "A"], vec!["p", "p", "A"]],
        _ => vec![vec!["A", "B", "p"], vec!["S", "A", "p"]],
    }
}

fn setup(comp: &[&str], salt: u64) -> Option<Run> {
    let mut cfg = Cfg::default_cfg();
    cfg.salt = salt;
    cfg.fee_rate = 0;
    cfg.min_stake = 1;
    let mut run = Run::new(&cfg, &["C07"]).ok()?;
    let sc = run.sc.clone();
    run.step(sc.resume(0, 0, 0));
    let u = sc.users[0].clone();
    run.step(Op::BankMint { addr: u.clone(), denom: sc.s.clone(), amount: 1_000_000 });
    let mut amt = 1000u128;
    for c in comp {
        amt += 137;
        let to: Option<String> = match *c {
            "A" => Some(sc.native_users[0].clone()),
            "B" => Some(sc.native_users[1].clone()),
            "S" => Some(sc.staker.clone()),
            _ => None,
        };
        let r = run.step(sc.stake(&u, amt, to.as_deref(), Some(true), None));
        if !r.ok {
            return None;
        }
    }
    run.step(Op::Advance { secs: 1001 });
    Some(run)
}

fn inflight(run: &Run) -> Vec<(String, u64)> {
    run.sc.w.packets.values().filter(|p| p.status == PStatus::InFlight && p.sender == run.sc.q).map(|p| (p.channel.clone(), p.seq)).collect()
}

struct Ctx<'a> {
    acc: &'a mut Acc,
    viols: Vec<(Vec<Op>, String)>,
    leaves: u64,
    originals: Vec<(String, u64)>,
    forced_used: bool,
}

fn finish(run: &Run, flavour: usize, ctx: &mut Ctx) {
    let mut r = run.clone();
    let sc = r.sc.clone();
    let user = sc.users[1].clone();
    for _round in 0..6 {
        let refundable: Vec<(u64, String, String)> = r.obs.queue.iter().filter(|p| p.status != "sent").map(|p| (p.seq, p.receiver.clone(), p.denom.clone())).collect();
        if refundable.is_empty() {
            break;
        }
        let (seq0, recv0, den0) = refundable[0].clone();
        let op = match flavour {
            0 => sc.recover(&user, None, None, Some(&recv0)),
            1 => sc.recover(&user, Some(true), None, Some(&recv0)),
            2 => sc.recover(&user, Some(false), None, if recv0 == sc.staker { None } else { Some(&recv0) }),
            _ => {
                // admin-forced: all refundable packets of that receiver and denom
                let mut sel: Vec<u64> = refundable.iter().filter(|x| x.1 == recv0 && x.2 == den0).map(|x| x.0).collect();
                let _ = seq0;
                // a slip of the admin rather than dishonesty: one packet named twice, next to its first mention or
                // with other packets in between; each named packet is owed exactly once whatever the spelling
                if sel.len() >= 2 {
                    match ctx.leaves % 3 {
                        1 => {
                            sel.push(sel[0]);
                            ctx.acc.count("c07enum:forced_duplicate:apart");
                        }
                        2 => {
                            sel.insert(1, sel[0]);
                            ctx.acc.count("c07enum:forced_duplicate:adjacent");
                        }
                        _ => {}
                    }
                }
                sc.recover(&sc.admin, None, Some(sel), Some(&recv0))
            }
        };
        let res = r.step(op);
        if !res.ok {
            // mixed denoms for one receiver: an unforced recovery is refused as a whole; use a forced one per denom
            let sel: Vec<u64> = refundable.iter().filter(|x| x.1 == recv0 && x.2 == den0).map(|x| x.0).collect();
            let res2 = r.step(sc.recover(&sc.admin, None, Some(sel), Some(&recv0)));
            if !res2.ok {
                ctx.viols.push((r.trace.clone(), format!("refundable transfers of {recv0} cannot be recovered by any flavour: {} / {}", res.err, res2.err)));
                break;
            }
        }
    }
    // whatever is in flight now (re-sent transfers) completes successfully
    for (c, s) in inflight(&r) {
        r.step(Op::Relay { channel: c, seq: s, outcome: "ack".into() });
    }
    if !r.obs.queue.is_empty() {
        ctx.viols.push((r.trace.clone(), format!("transfers left in the queue at the end: {:?}", r.obs.queue.iter().map(|p| (p.seq, p.status.clone())).collect::<Vec<_>>())));
    }
    // conservation: every original amount ended up at its receiver exactly once
    for v in &r.viols {
        ctx.viols.push((r.trace.clone(), v.what.clone()));
    }
    ctx.leaves += 1;
    ctx.acc.seen("C07", &format!("leaf|{flavour}|{}", r.model.counters.iter().filter(|(k, _)| k.starts_with("op:relay")).map(|(k, v)| format!("{k}{v}")).collect::<Vec<_>>().join(",")));
}

fn dfs(run: &Run, ctx: &mut Ctx) {
    let pending: Vec<(String, u64)> = inflight(run).into_iter().filter(|p| ctx.originals.contains(p)).collect();
    if !run.viols.is_empty() {
        for v in &run.viols {
            ctx.viols.push((run.trace.clone(), v.what.clone()));
        }
        return;
    }
    if pending.is_empty() {
        for flavour in 0..4 {
            finish(run, flavour, ctx);
        }
        return;
    }
    // once per path (small compositions only): the admin force-recovers a transfer that is still
    // in flight; its value must then never be re-sent a second time, whatever happens to the original
    if !ctx.forced_used && ctx.originals.len() <= 3 {
        for (c, s) in &pending {
            let mut r = run.clone();
            let sc = r.sc.clone();
            let p = r.sc.w.packets.get(&(c.clone(), *s)).cloned();
            if let Some(p) = p {
                r.step(Op::BankMint { addr: sc.q.clone(), denom: p.denom.clone(), amount: p.amount });
                let res = r.step(sc.recover(&sc.admin, None, Some(vec![*s]), Some(&p.receiver)));
                if res.ok {
                    ctx.acc.count("c07enum:forced_inflight");
                    ctx.forced_used = true;
                    dfs(&r, ctx);
                    ctx.forced_used = false;
                }
            }
        }
    }
    for (c, s) in &pending {
        for oc in ["ack", "err", "timeout"] {
            for recover_after in [false, true] {
                let mut r = run.clone();
                r.step(Op::Relay { channel: c.clone(), seq: *s, outcome: oc.into() });
                if recover_after {
                    let sc = r.sc.clone();
                    r.step(sc.recover(&sc.users[2], None, None, None));
                } else if oc == "ack" {
                    // a duplicate acknowledgement for a completed packet changes nothing
                    let sc = r.sc.clone();
                    r.step(Op::Sudo { contract: sc.q.clone(), msg: json!({"ibc_lifecycle_complete": {"ibc_ack": {"channel": c, "sequence": s, "ack": "{}", "success": false}}}).to_string() });
                }
                dfs(&r, ctx);
                if ctx.viols.len() > 20 {
                    return;
                }
            }
        }
    }
}

pub fn run(a: &Args, acc: &mut Acc) {
    let seed = a.u64("seed", 1);
    let shard = a.u64("shard", 0);
    let nshards = a.u64("nshards", 1);
    let kmax = a.u64("k", 3) as usize;
    let replay_dir = a.s("replay-dir", "/verif/replays");
    let mut job = 0u64;
    let mut total_leaves = 0u64;
    let mut viols: Vec<(Vec<Op>, String)> = vec![];
    for k in 1..=kmax {
        for comp in compositions(k) {
            // shard over (composition, first delivered packet, its outcome)
            let Some(base) = setup(&comp, seed % 1000) else {
                acc.inconclusive.push(format!("c07enum setup failed for {comp:?}"));
                continue;
            };
            let originals = inflight(&base);
            for (c, s) in &originals {
                for oc in ["ack", "err", "timeout"] {
                    job += 1;
                    if job % nshards != shard {
                        continue;
                    }
                    let mut ctx = Ctx { acc: &mut *acc, viols: vec![], leaves: 0, originals: originals.clone(), forced_used: false };
                    for recover_after in [false, true] {
                        let mut r = base.clone();
                        r.step(Op::Relay { channel: c.clone(), seq: *s, outcome: oc.into() });
                        if recover_after {
                            let sc = r.sc.clone();
                            r.step(sc.recover(&sc.users[2], None, None, None));
                        }
                        dfs(&r, &mut ctx);
                    }
                    let leaves = ctx.leaves;
                    total_leaves += leaves;
                    viols.extend(std::mem::take(&mut ctx.viols));
                    drop(ctx);
                    acc.add(&format!("c07enum:leaves:k{}", originals.len()), leaves);
                }
            }
            if acc.samples.len() < 2 {
                acc.samples.push(json!({"lane": "c07enum", "composition": comp, "outstanding_packets": originals.len(), "packets": base.obs.queue.iter().map(|p| json!({"seq": p.seq, "denom": p.denom, "receiver": p.receiver, "amount": p.amount.to_string()})).collect::<Vec<_>>()}));
            }
        }
    }
    acc.add("c07enum:leaves", total_leaves);
    acc.notes.push(format!("fault enumeration: every outcome assignment x delivery order x recover-after bits x 4 final recovery flavours for up to {kmax} stakes per composition (sharded by first delivery)"));
    let mut seen = std::collections::BTreeSet::new();
    for (trace, what) in viols {
        let sig = crate::sig_of(&what);
        if seen.insert(sig.clone()) && acc.violations.len() < 6 {
            let path = format!("{replay_dir}/C07-enum-{seed}-{shard}-{}.json", acc.violations.len());
            let mut cfg = Cfg::default_cfg();
            cfg.salt = seed % 1000;
            cfg.fee_rate = 0;
            cfg.min_stake = 1;
            let doc = json!({"engine": "hist", "seed": seed, "chain": format!("{:?}", ChainKind::built()), "cfg": serde_json::to_value(&cfg).unwrap(), "props": ["C07"], "trace": serde_json::to_value(&trace).unwrap(), "violations": [{"property": "C07", "what": what}]});
            let _ = std::fs::create_dir_all(&replay_dir);
            let _ = std::fs::write(&path, doc.to_string());
            acc.violations.push(json!({"property": "C07", "what": what, "sig": sig, "replay": path}));
        }
    }
}
