//! C13: treasury swaps only for the trader on allow-listed routes; admin-only spending.
use crate::prim::{self, Rng};
use crate::scenario::*;
use crate::world::*;
use crate::{Acc, Args};
use serde_json::{json, Value};

type Hop = (u64, String, String);
type Route = Vec<Hop>;

fn denom(rng: &mut Rng) -> String {
    rng.pick(&["uosmo", "utia", "ibc/AAAA", "uatom", "factory/x/y", "uusdc", "a", ""]).to_string()
}

fn gen_route(rng: &mut Rng, hops: usize) -> Route {
    let mut r = vec![];
    let mut cur = denom(rng);
    for _ in 0..hops {
        let nxt = denom(rng);
        r.push((rng.below(6) + if rng.chance(1, 20) { u64::MAX - 6 } else { 0 }, cur.clone(), nxt.clone()));
        cur = nxt;
    }
    r
}

fn route_json(r: &Route) -> Value {
    Value::Array(r.iter().map(|(p, i, o)| json!({"pool_id": p, "token_in_denom": i, "token_out_denom": o})).collect())
}

fn candidates(rng: &mut Rng, allow: &[Route]) -> Vec<(Route, &'static str)> {
    let mut c: Vec<(Route, &'static str)> = vec![(vec![], "empty")];
    for r in allow {
        c.push((r.clone(), "exact"));
        if r.len() > 1 {
            c.push((r[..r.len() - 1].to_vec(), "prefix"));
            c.push((r[1..].to_vec(), "suffix"));
            let mut rev = r.clone();
            rev.reverse();
            c.push((rev, "reversed"));
        }
        if !r.is_empty() {
            let i = rng.below(r.len() as u64) as usize;
            let mut p = r.clone();
            match rng.below(3) {
                0 => p[i].0 = p[i].0.wrapping_add(1),
                1 => p[i].1.push('x'),
                _ => p[i].2.push('x'),
            }
            c.push((p, "perturbed"));
            let mut dup = r.clone();
            dup.push(r[r.len() - 1].clone());
            c.push((dup, "extended"));
        }
    }
    if allow.len() >= 2 {
        let a = rng.pick(allow).clone();
        let b = rng.pick(allow).clone();
        let mut cat = a.clone();
        cat.extend(b.clone());
        c.push((cat, "concatenation"));
        if !a.is_empty() && !b.is_empty() {
            let mut mix = a[..1].to_vec();
            mix.extend(b[b.len() - 1..].to_vec());
            c.push((mix, "splice"));
        }
    }
    // position by position from two different allowed routes of the same length
    for a in allow {
        for b in allow {
            if a.len() == b.len() && a.len() >= 2 && a != b {
                let mixed: Route = a.iter().zip(b.iter()).enumerate().map(|(i, (x, y))| if i % 2 == 0 { x.clone() } else { y.clone() }).collect();
                if !allow.contains(&mixed) {
                    c.push((mixed, "hopwise-splice"));
                }
            }
        }
    }
    let hops = 1 + rng.below(3) as usize;
    c.push((gen_route(rng, hops), "random"));
    c
}

pub struct Case {
    pub allow: Vec<Route>,
    pub cand: Route,
    pub exact_in: bool,
    pub coin: (String, u128),
    pub limit: u128,
    pub by_trader: bool,
}

pub fn check_swap(c: &Case) -> Vec<String> {
    let mut out = vec![];
    let mut w = World::new(ChainKind::Osmosis, "osmo", "celestia", "channel-1");
    let admin = addr20("osmo", "tadmin");
    let trader = addr20("osmo", "trader");
    let other = addr20("osmo", "someone");
    let t = addr32("osmo", "treasury-c13");
    let allow_json = Value::Array(c.allow.iter().map(route_json).collect());
    let r = w.instantiate(Kind::Treasury, &admin, &t, &json!({"admin": admin, "trader": trader, "allowed_swap_routes": allow_json}).to_string());
    if !r.ok {
        return vec![format!("treasury instantiate refused: {}", r.err)];
    }
    let sender = if c.by_trader { trader.clone() } else if c.limit % 2 == 0 { other } else { admin.clone() };
    let msg = if c.exact_in {
        json!({"swap_exact_amount_in": {"routes": route_json(&c.cand), "token_in": {"denom": c.coin.0, "amount": c.coin.1.to_string()}, "token_out_min_amount": c.limit.to_string()}})
    } else {
        json!({"swap_exact_amount_out": {"routes": route_json(&c.cand), "token_out": {"denom": c.coin.0, "amount": c.coin.1.to_string()}, "token_in_max_amount": c.limit.to_string()}})
    };
    let r = w.exec(&sender, &t, &msg.to_string(), &[]);
    if !r.panics.is_empty() {
        out.push(format!("swap panicked: {:?}", r.panics));
        return out;
    }
    // own predicate: element-wise identity with some allowed route + end-point denom
    let listed = !c.cand.is_empty() && c.allow.iter().any(|a| a.len() == c.cand.len() && a.iter().zip(c.cand.iter()).all(|(x, y)| x.0 == y.0 && x.1 == y.1 && x.2 == y.2));
    let endpoint = if c.cand.is_empty() { false } else if c.exact_in { c.cand[0].1 == c.coin.0 } else { c.cand[c.cand.len() - 1].2 == c.coin.0 };
    let want = c.by_trader && listed && endpoint;
    if r.ok && !want {
        out.push(format!("swap executed although it must be refused (trader {}, route allow-listed {}, end-point denom matches {})", c.by_trader, listed, endpoint));
    }
    if !r.ok && want {
        out.push(format!("allow-listed swap by the trader refused: {}", r.err));
    }
    if r.ok {
        let swaps: Vec<&Ev> = r.events.iter().filter(|e| matches!(e, Ev::Swap { .. })).collect();
        let others = r.events.iter().filter(|e| !matches!(e, Ev::Swap { .. } | Ev::Exec { .. })).count();
        if swaps.len() != 1 || others != 0 {
            out.push(format!("swap emitted {} swap messages and {} other effects", swaps.len(), others));
        }
        if let Some(Ev::Swap { url, sender: s, routes, coin, limit, raw }) = swaps.first() {
            let want_url = if c.exact_in { "/osmosis.poolmanager.v1beta1.MsgSwapExactAmountIn" } else { "/osmosis.poolmanager.v1beta1.MsgSwapExactAmountOut" };
            let want_routes: Vec<(u64, String)> = c.cand.iter().map(|(p, i, o)| (*p, if c.exact_in { o.clone() } else { i.clone() })).collect();
            if url != want_url || s != &t || routes != &want_routes || coin != &c.coin || limit != &c.limit.to_string() {
                out.push(format!("emitted swap {url} sender {s} routes {routes:?} coin {coin:?} limit {limit} does not reproduce the request (routes {want_routes:?}, coin {:?}, limit {})", c.coin, c.limit));
            }
            // canonical bytes: re-encode with the harness's writer
            let mut enc = vec![];
            prim::put_str(&mut enc, 1, &t);
            for (p, d) in &want_routes {
                let mut h = vec![];
                prim::put_u64(&mut h, 1, *p);
                prim::put_str(&mut h, 2, d);
                prim::put_bytes(&mut enc, 2, &h);
            }
            if c.exact_in {
                prim::put_bytes(&mut enc, 3, &prim::enc_coin(&c.coin.0, c.coin.1));
                prim::put_str(&mut enc, 4, &c.limit.to_string());
            } else {
                prim::put_str(&mut enc, 3, &c.limit.to_string());
                prim::put_bytes(&mut enc, 4, &prim::enc_coin(&c.coin.0, c.coin.1));
            }
            if &enc != raw {
                out.push("emitted swap bytes are not the canonical encoding of the request".into());
            }
        }
    }
    out
}

/// SpendFunds / UpdateConfig: admin only; local <=> osmo address; IBC <=> celestia address
pub fn check_spend(rng: &mut Rng, acc: &mut Acc) -> Vec<String> {
    let mut out = vec![];
    let mut w = World::new(ChainKind::Osmosis, "osmo", "celestia", "channel-1");
    w.open_channels.insert("channel-9".into());
    let admin = addr20("osmo", "tadmin");
    let trader = addr20("osmo", "trader");
    let t = addr32("osmo", "treasury-c13");
    // (with one route on the allow-list, so that clearing the list later is a change)
    let r = w.instantiate(Kind::Treasury, &admin, &t, &json!({"admin": admin, "trader": trader, "allowed_swap_routes": [[{"pool_id": 7, "token_in_denom": "uosmo", "token_out_denom": "utia"}]]}).to_string());
    if !r.ok {
        return vec![format!("treasury instantiate refused: {}", r.err)];
    }
    let d = rng.pick(&["uosmo", "ibc/27394FB092D2ECCD56123C74F36E4C1F926001CEADA9CA97EA622B25F41E5EB2"]).to_string();
    let amount = 1 + rng.below128(1_000_000_000_000);
    w.mint_raw(&t, &d, amount.saturating_mul(2));
    let receivers = vec![
        (addr20("osmo", "recv"), "osmo"),
        (addr32("osmo", "recvc"), "osmo"),
        (addr20("celestia", "recv"), "celestia"),
        (addr20("cosmos", "recv"), "other"),
        (addr20("osmo", "recv").to_uppercase(), "osmo-upper"),
        ("osmo1invalid".to_string(), "junk"),
        (String::new(), "empty"),
        (prim::bech32_encode_v("osmo", &[7u8; 20], prim::Variant::Bech32m), "bech32m"),
        (addr20("osmovaloper", "recv"), "osmo-extended-prefix"),
        (addr20("celestiavaloper", "recv"), "celestia-extended-prefix"),
        (addr20("osm", "recv"), "osmo-shortened-prefix"),
        (addr20("celestia1", "recv"), "celestia-with-digit"),
    ];
    let (recv, class) = rng.pick(&receivers).clone();
    let ibc = rng.chance(1, 2);
    // (an empty channel id is still "a channel was named": never a local spend)
    let channel = if ibc { Some(rng.pick(&["channel-1", "channel-9", "channel-1", "channel-9", ""]).to_string()) } else { None };
    let caller_is_admin = rng.chance(2, 3);
    let caller = if caller_is_admin { admin.clone() } else { rng.pick(&[trader.clone(), addr20("osmo", "nobody"), t.clone()]).clone() };
    let msg = json!({"spend_funds": {"amount": {"denom": d, "amount": amount.to_string()}, "receiver": recv, "channel_id": channel}});
    let r = w.exec(&caller, &t, &msg.to_string(), &[]);
    acc.seen("C13", &format!("spend|{class}|{ibc}|{caller_is_admin}|{}", r.ok));
    acc.count(&format!("c13:spend:{}:{}", if ibc { "ibc" } else { "local" }, if r.ok { "ok" } else { "fail" }));
    if !r.panics.is_empty() {
        out.push(format!("spend panicked: {:?}", r.panics));
    }
    if r.ok {
        if !caller_is_admin {
            out.push(format!("SpendFunds by a non-admin ({caller}) succeeded"));
        }
        let good = match prim::bech32_decode(&recv) {
            Some((h, _, _)) => (ibc && h == "celestia") || (!ibc && h == "osmo"),
            None => false,
        };
        if !good {
            out.push(format!("SpendFunds ({}) to receiver class {class} succeeded", if ibc { "IBC" } else { "local" }));
        }
        let sends: Vec<&Ev> = r.events.iter().filter(|e| matches!(e, Ev::BankSend { .. } | Ev::IbcSend { .. })).collect();
        if sends.len() != 1 {
            out.push(format!("SpendFunds produced {} transfers", sends.len()));
        }
        match sends.first() {
            Some(Ev::BankSend { from, to, denom, amount: a }) => {
                if ibc || from != &t || to != &recv || denom != &d || *a != amount {
                    out.push(format!("local spend moved {a}{denom} from {from} to {to}; requested {amount}{d} to {recv} (ibc={ibc})"));
                }
            }
            Some(Ev::IbcSend { channel: ch, sender, receiver, denom, amount: a, .. }) => {
                if !ibc || sender != &t || receiver != &recv || denom != &d || *a != amount || Some(ch.clone()) != channel {
                    out.push(format!("IBC spend sent {a}{denom} from {sender} to {receiver} on {ch}; requested {amount}{d} to {recv} on {channel:?}"));
                }
            }
            _ => {}
        }
    }
    // UpdateConfig: admin only; afterwards the new allow-list governs
    let newr = gen_route(rng, 2);
    let caller2_admin = rng.chance(1, 2);
    let caller2 = if caller2_admin { admin.clone() } else { trader.clone() };
    // (every third time the new allow-list is empty: that switches all swaps off)
    let clear = rng.chance(1, 3);
    let new_list = if clear { json!([]) } else { json!([route_json(&newr)]) };
    let r2 = w.exec(&caller2, &t, &json!({"update_config": {"trader": null, "allowed_swap_routes": new_list}}).to_string(), &[]);
    if r2.ok != caller2_admin {
        out.push(format!("treasury UpdateConfig by {} {}", if caller2_admin { "the admin" } else { "a non-admin" }, if r2.ok { "succeeded" } else { "failed" }));
    }
    if let Ok(cfg) = w.query(&t, "{\"config\":{}}") {
        if vs(&cfg, "trader") != trader || vs(&cfg, "admin") != admin {
            out.push(format!("routes-only UpdateConfig changed the trader / admin to {} / {}", vs(&cfg, "trader"), vs(&cfg, "admin")));
        }
        let n = cfg.get("allowed_swap_routes").and_then(|x| x.as_array()).map(|a| a.len()).unwrap_or(99);
        let replaced = if clear { n == 0 } else { n == 1 && cfg.get("allowed_swap_routes").and_then(|x| x.as_array()).and_then(|a| a.first()) == Some(&route_json(&newr)) };
        if caller2_admin && !replaced {
            out.push(format!("allow-list has {n} routes after the admin replaced it with {}", if clear { "an empty list".to_string() } else { "one new route".to_string() }));
        }
    }
    acc.seen("C13", &format!("updcfg|{caller2_admin}|{}", r2.ok));
    // trader rotation with the routes left untouched: the new trader (and only it) may swap afterwards
    {
        let newtrader = addr20("osmo", "trader-next");
        let before = w.query(&t, "{\"config\":{}}").unwrap_or(Value::Null);
        let r3 = w.exec(&admin, &t, &json!({"update_config": {"trader": newtrader, "allowed_swap_routes": null}}).to_string(), &[]);
        let after = w.query(&t, "{\"config\":{}}").unwrap_or(Value::Null);
        if !r3.ok {
            out.push(format!("trader-only UpdateConfig by the admin refused: {}", r3.err));
        } else {
            if vs(&after, "trader") != newtrader {
                out.push(format!("UpdateConfig(trader) succeeded but the trader is still {}", vs(&after, "trader")));
            }
            if before.get("allowed_swap_routes") != after.get("allowed_swap_routes") || before.get("admin") != after.get("admin") {
                out.push("trader-only UpdateConfig changed the allow-list or the admin".into());
            }
            let route = after.get("allowed_swap_routes").and_then(|x| x.as_array()).and_then(|a| a.first()).cloned();
            if let Some(route) = route {
                let first_in = route.as_array().and_then(|a| a.first()).map(|h| vs(h, "token_in_denom")).unwrap_or_default();
                let m = json!({"swap_exact_amount_in": {"routes": route, "token_in": {"denom": first_in, "amount": "5"}, "token_out_min_amount": "1"}});
                let r_old = w.clone().exec(&trader, &t, &m.to_string(), &[]);
                let r_new = w.clone().exec(&newtrader, &t, &m.to_string(), &[]);
                if r_old.ok || !r_new.ok {
                    out.push(format!("after rotating the trader: old trader swap {}, new trader swap {}", if r_old.ok { "accepted" } else { "refused" }, if r_new.ok { "accepted" } else { "refused" }));
                }
            }
        }
        acc.seen("C13", &format!("rotate|{}", r3.ok));
    }
    out
}

pub fn run(a: &Args, acc: &mut Acc) {
    let seed = a.u64("seed", 1);
    let shard = a.u64("shard", 0);
    let lists = a.u64("lists", 60);
    let budget = a.u64("budget-s", 0);
    let replay_dir = a.s("replay-dir", "/verif/replays");
    let mut rng = Rng::new(seed ^ (shard + 1).wrapping_mul(0x9E3779B97F4A7C15) ^ 0xC13);
    let start = std::time::Instant::now();
    let mut nv = 0;
    let mut i = 0;
    loop {
        if budget > 0 {
            if start.elapsed().as_secs() >= budget {
                break;
            }
        } else if i >= lists {
            break;
        }
        i += 1;
        let nroutes = rng.below(7) as usize;
        let mut allow: Vec<Route> = (0..nroutes).map(|_| { let h = 1 + rng.below(4) as usize; gen_route(&mut rng, h) }).collect();
        if rng.chance(1, 6) {
            // nothing validates the allow-list: it may hold an empty route
            allow.push(vec![]);
        }
        for (cand, family) in candidates(&mut rng, &allow) {
            for exact_in in [true, false] {
                let endpoint_ok = rng.chance(3, 4);
                let d = if cand.is_empty() {
                    denom(&mut rng)
                } else if endpoint_ok {
                    if exact_in { cand[0].1.clone() } else { cand[cand.len() - 1].2.clone() }
                } else if rng.chance(1, 4) {
                    // the right end-point in another letter case (bank denoms are case sensitive)
                    let e = if exact_in { cand[0].1.clone() } else { cand[cand.len() - 1].2.clone() };
                    if e.chars().any(|c| c.is_ascii_lowercase()) { e.to_uppercase() } else { e.to_lowercase() }
                } else if rng.chance(1, 3) {
                    // the *other* end of the route
                    if exact_in { cand[cand.len() - 1].2.clone() } else { cand[0].1.clone() }
                } else if rng.chance(1, 2) {
                    // a denom that appears in the middle of the route
                    let i = rng.below(cand.len() as u64) as usize;
                    if exact_in { cand[i].2.clone() } else { cand[i].1.clone() }
                } else {
                    denom(&mut rng)
                };
                let c = Case { allow: allow.clone(), cand: cand.clone(), exact_in, coin: (d, rng.below128(1u128 << 100)), limit: if rng.chance(1, 6) { *rng.pick(&[0u128, 1, 2, u128::MAX]) } else { rng.u128() >> rng.below(120) }, by_trader: rng.chance(5, 6) };
                let v = check_swap(&c);
                let listed = allow.iter().any(|a| a == &cand);
                acc.seen("C13", &format!("swap|{family}|{exact_in}|{listed}|{endpoint_ok}|{}|{}", c.by_trader, cand.len().min(4)));
                acc.count(&format!("c13:{family}"));
                for e in v {
                    nv += 1;
                    if nv <= 5 {
                        let path = format!("{replay_dir}/C13-{seed}-{shard}-{nv}.json");
                        let doc = json!({"engine": "lane", "lane": "c13", "props": ["C13"], "case": {"allow": allow.iter().map(route_json).collect::<Vec<_>>(), "cand": route_json(&cand), "exact_in": exact_in, "denom": c.coin.0, "amount": c.coin.1.to_string(), "limit": c.limit.to_string(), "by_trader": c.by_trader}});
                        let _ = std::fs::create_dir_all(&replay_dir);
                        let _ = std::fs::write(&path, doc.to_string());
                        acc.violations.push(json!({"property": "C13", "what": format!("[{family} route] {e}"), "sig": crate::sig_of(&e), "replay": path}));
                    }
                }
                if acc.samples.len() < 2 && family == "concatenation" {
                    acc.samples.push(json!({"lane": "c13", "family": family, "allow": allow.iter().map(route_json).collect::<Vec<_>>(), "candidate": route_json(&cand), "exact_in": exact_in}));
                }
            }
        }
        for _ in 0..6 {
            for e in check_spend(&mut rng, acc) {
                nv += 1;
                if nv <= 5 {
                    acc.violations.push(json!({"property": "C13", "what": e, "sig": crate::sig_of(&e), "replay": format!("{replay_dir}/C13-spend-seed{seed}-shard{shard}.json")}));
                    let _ = std::fs::create_dir_all(&replay_dir);
                    let _ = std::fs::write(format!("{replay_dir}/C13-spend-seed{seed}-shard{shard}.json"), json!({"engine": "lane", "lane": "c13", "props": ["C13"], "case": {"spend_seed": seed, "shard": shard, "lists": i}}).to_string());
                }
            }
        }
    }
}

fn parse_route(v: &Value) -> Route {
    v.as_array().map(|a| a.iter().map(|h| (vu64(h, "pool_id"), vs(h, "token_in_denom"), vs(h, "token_out_denom"))).collect()).unwrap_or_default()
}

pub fn replay(case: &Value) -> Result<Vec<(String, String)>, String> {
    if let Some(seed) = case.get("spend_seed").and_then(|x| x.as_u64()) {
        // spend cases are regenerated from the seed (the generator is part of the harness)
        let shard = case.get("shard").and_then(|x| x.as_u64()).unwrap_or(0);
        let lists = case.get("lists").and_then(|x| x.as_u64()).unwrap_or(1);
        let mut acc = Acc::default();
        let a = Args::parse(&["--seed".into(), seed.to_string(), "--shard".into(), shard.to_string(), "--lists".into(), lists.to_string(), "--replay-dir".into(), "/tmp/c13-replay".into()]);
        run(&a, &mut acc);
        return Ok(acc.violations.iter().map(|v| ("C13".to_string(), v.get("what").and_then(|x| x.as_str()).unwrap_or("").to_string())).collect());
    }
    let allow: Vec<Route> = case.get("allow").and_then(|x| x.as_array()).ok_or("allow")?.iter().map(parse_route).collect();
    let c = Case {
        allow,
        cand: parse_route(case.get("cand").ok_or("cand")?),
        exact_in: case.get("exact_in").and_then(|x| x.as_bool()).unwrap_or(true),
        coin: (vs(case, "denom"), vu128(case, "amount")),
        limit: vu128(case, "limit"),
        by_trader: case.get("by_trader").and_then(|x| x.as_bool()).unwrap_or(true),
    };
    Ok(check_swap(&c).into_iter().map(|e| ("C13".to_string(), e)).collect())
}
