//! C05 permutation lane: for batches of up to n requesters (with repeated requests), ALL
//! withdrawal orders x delivery sizes {1, expected-1, expected, expected+1, 10x, tiny} with
//! interleaved noise (double withdrawals, foreign withdrawals, a stake, a reward); payouts must be
//! floor(received * own / total) for every requester in every order.
use crate::hist::*;
use crate::prim;
use crate::scenario::*;
use crate::world::*;
use crate::{Acc, Args};
use serde_json::json;
use std::collections::BTreeMap;

fn permutations(n: usize) -> Vec<Vec<usize>> {
    fn rec(cur: &mut Vec<usize>, used: &mut Vec<bool>, n: usize, out: &mut Vec<Vec<usize>>) {
        if cur.len() == n {
            out.push(cur.clone());
            return;
        }
        for i in 0..n {
            if !used[i] {
                used[i] = true;
                cur.push(i);
                rec(cur, used, n, out);
                cur.pop();
                used[i] = false;
            }
        }
    }
    let mut out = vec![];
    rec(&mut vec![], &mut vec![false; n], n, &mut out);
    out
}

pub fn run(a: &Args, acc: &mut Acc) {
    let seed = a.u64("seed", 1);
    let shard = a.u64("shard", 0);
    let nshards = a.u64("nshards", 1);
    let nmax = a.u64("n", 5) as usize;
    let replay_dir = a.s("replay-dir", "/verif/replays");
    let mut rng = prim::Rng::new(seed ^ 0xC05);
    let mut viols: Vec<(Cfg, Vec<Op>, String)> = vec![];
    let mut job = 0u64;
    for (n, scale) in (1..=nmax).flat_map(|n| {
        // small batches also with 18-decimals-sized amounts (products far beyond 128 bits)
        let scales: Vec<u128> = if n <= 4 { vec![1, 10u128.pow(15), 10u128.pow(21)] } else { vec![1] };
        scales.into_iter().map(move |s| (n, s))
    }) {
        let mut cfg = Cfg::default_cfg();
        cfg.n_users = n + 2;
        cfg.salt = seed % 1000;
        cfg.fee_rate = 0;
        cfg.min_stake = 1;
        cfg.batch_period = 10;
        cfg.unbonding = 10;
        let Ok(mut base) = Run::new(&cfg, &["C05"]) else { continue };
        let sc = base.sc.clone();
        base.step(sc.resume(0, 0, 0));
        // each requester stakes, then unstakes an uneven share; requester 0 unstakes twice
        let mut owns: Vec<u128> = vec![];
        for i in 0..n {
            let u = sc.users[i].clone();
            let amt = (1_000 + 977 * (i as u128 + 1) + rng.below(1000) as u128) * scale + (scale > 1) as u128 * rng.below(1_000_000) as u128;
            base.step(Op::BankMint { addr: u.clone(), denom: sc.s.clone(), amount: amt });
            base.step(sc.stake(&u, amt, None, None, None));
        }
        base.relay_all("ack");
        // a reward makes the rate uneven
        let coll = sc.collector.clone();
        base.step(Op::NativeMint { addr: coll.clone(), amount: 777 * scale });
        base.step(sc.reward(&coll, &sc.cfg.channel, 777 * scale));
        base.relay_all("ack");
        for i in 0..n {
            let u = sc.users[i].clone();
            let bal = base.sc.w.bal(&u, &sc.t);
            let first = bal / 3 + 1;
            base.step(sc.unstake(&u, first));
            let mut own = first;
            if i == 0 && bal > first + 7 {
                base.step(sc.unstake(&u, 7));
                own += 7;
            }
            owns.push(own);
        }
        base.step(Op::Advance { secs: 11 });
        base.step(sc.submit(&sc.users[0]));
        let b = base.obs.batches.iter().find(|b| b.id == 1).cloned().unwrap();
        let expected = b.expected;
        let total = b.total;
        base.step(Op::Advance { secs: 11 });
        let sizes: Vec<u128> = vec![1, expected.saturating_sub(1).max(1), expected, expected + 1, expected * 10, 3];
        for recv in sizes {
            let mut delivered = base.clone();
            let staker = sc.staker.clone();
            if recv > expected {
                delivered.step(Op::NativeMint { addr: staker.clone(), amount: recv - expected });
            } else if recv < expected {
                delivered.step(Op::NativeBurn { addr: staker.clone(), amount: expected - recv });
            }
            let r = delivered.step(sc.deliver(&staker, &sc.cfg.channel, 1, recv));
            if !r.ok {
                viols.push((cfg.clone(), delivered.trace.clone(), format!("delivery of {recv} for a submitted, matured batch refused: {}", r.err)));
                continue;
            }
            let mut reference: BTreeMap<usize, u128> = BTreeMap::new();
            for perm in permutations(n) {
                job += 1;
                if job % nshards != shard {
                    continue;
                }
                let mut run = delivered.clone();
                let mut paid_total = 0u128;
                for (pos, i) in perm.iter().enumerate() {
                    let u = sc.users[*i].clone();
                    // noise between withdrawals
                    match (pos + perm[0]) % 4 {
                        0 => {
                            let x = sc.users[n].clone(); // no request in this batch
                            run.step(sc.withdraw(&x, 1));
                        }
                        1 => {
                            let x = sc.users[n + 1].clone();
                            run.step(Op::BankMint { addr: x.clone(), denom: sc.s.clone(), amount: 5000 });
                            run.step(sc.stake(&x, 5000, None, None, None));
                        }
                        2 => {
                            run.step(Op::NativeMint { addr: coll.clone(), amount: 313 });
                            run.step(sc.reward(&coll, &sc.cfg.channel, 313));
                        }
                        _ => {}
                    }
                    let before = run.sc.w.bal(&u, &sc.s);
                    let r = run.step(sc.withdraw(&u, 1));
                    let got = run.sc.w.bal(&u, &sc.s) - before;
                    let want = prim::mul_div_floor(recv, owns[*i], total).unwrap_or(u128::MAX);
                    if !r.ok {
                        viols.push((cfg.clone(), run.trace.clone(), format!("withdrawal of requester {i} (own {}, batch total {total}, received {recv}) refused: {}", owns[*i], r.err)));
                    } else if got != want {
                        viols.push((cfg.clone(), run.trace.clone(), format!("requester {i} got {got}, floor({recv} * {} / {total}) = {want} (position {pos} in order {perm:?})", owns[*i])));
                    }
                    if let Some(prev) = reference.get(i) {
                        if *prev != got && r.ok {
                            viols.push((cfg.clone(), run.trace.clone(), format!("payout of requester {i} depends on the withdrawal order: {prev} vs {got}")));
                        }
                    } else if r.ok {
                        reference.insert(*i, got);
                    }
                    paid_total += got;
                    // a second withdrawal must fail
                    let r2 = run.step(sc.withdraw(&u, 1));
                    if r2.ok {
                        viols.push((cfg.clone(), run.trace.clone(), format!("requester {i} withdrew twice from batch 1")));
                    }
                }
                if paid_total > recv {
                    viols.push((cfg.clone(), run.trace.clone(), format!("batch paid out {paid_total} > received {recv}")));
                }
                for v in &run.viols {
                    viols.push((cfg.clone(), run.trace.clone(), v.what.clone()));
                }
                acc.count("c05perm:orders");
                acc.seen("C05", &format!("perm|{n}|{}|{:?}", if recv < expected { "short" } else if recv == expected { "exact" } else { "long" }, &perm[..perm.len().min(3)]));
                if viols.len() > 30 {
                    break;
                }
            }
        }
        if acc.samples.is_empty() && n >= 2 {
            acc.samples.push(json!({"lane": "c05perm", "requesters": n, "requests": owns.iter().map(|x| x.to_string()).collect::<Vec<_>>(), "batch_total": total.to_string(), "expected": expected.to_string()}));
        }
    }
    acc.notes.push(format!("all withdrawal orders for batches of 1..={nmax} requesters x 6 delivery sizes (sharded by order index)"));
    let mut seen = std::collections::BTreeSet::new();
    for (cfg, trace, what) in viols {
        let sig = crate::sig_of(&what);
        if seen.insert(sig.clone()) && acc.violations.len() < 6 {
            let path = format!("{replay_dir}/C05-perm-{seed}-{shard}-{}.json", acc.violations.len());
            let doc = json!({"engine": "hist", "seed": seed, "chain": format!("{:?}", ChainKind::built()), "cfg": serde_json::to_value(&cfg).unwrap(), "props": ["C05"], "trace": serde_json::to_value(&trace).unwrap(), "violations": [{"property": "C05", "what": what}]});
            let _ = std::fs::create_dir_all(&replay_dir);
            let _ = std::fs::write(&path, doc.to_string());
            acc.violations.push(json!({"property": "C05", "what": what, "sig": sig, "replay": path}));
        }
    }
}
