//! C19: token-factory messages are right for the target chain in both builds, and the two
//! builds behave identically otherwise. Each build runs the same seeded histories and writes
//! per-step behaviour digests; `check` compares the digests of the two builds.
use crate::gen::*;
use crate::hist::*;
use crate::prim::Rng;
use crate::scenario::*;
use crate::world::*;
use crate::{Acc, Args};
use serde_json::{json, Value};

pub fn run(a: &Args, acc: &mut Acc) {
    let seed = a.u64("seed", 1);
    let shard = a.u64("shard", 0);
    let histories = a.u64("histories", 8);
    let steps = a.u64("steps", 150) as usize;
    let budget = a.u64("budget-s", 0);
    let replay_dir = a.s("replay-dir", "/verif/replays");
    let trace_dir = a.s("trace-dir", "/verif/target/c19-traces");
    let build = format!("{:?}", ChainKind::built());
    let start = std::time::Instant::now();
    let mut master = Rng::new(seed.wrapping_mul(0x9E3779B97F4A7C15) ^ (shard + 1).wrapping_mul(0xD1B54A32D192ED03) ^ 0xC19);
    let _ = std::fs::create_dir_all(format!("{trace_dir}/{build}"));
    let mut h = 0u64;
    let mut sigs = std::collections::BTreeSet::new();
    loop {
        // the number of histories must be identical in both builds: bounded by count, and in the
        // thorough tier by a count derived from the budget (not by the clock)
        if h >= histories || (budget > 0 && start.elapsed().as_secs() >= budget * 3) {
            break;
        }
        h += 1;
        let hseed = master.next();
        let mut crng = Rng::new(hseed);
        let cfg = Cfg::random(&mut crng);
        // a build pointed at the other chain kind must not be able to create its denom
        if h == 1 {
            let other = if ChainKind::built() == ChainKind::Osmosis { ChainKind::Miniwasm } else { ChainKind::Osmosis };
            let mut w = World::new(other, &cfg.prefix, &cfg.native_prefix, &cfg.channel);
            let admin = addr20(&cfg.prefix, "admin-x");
            let q = addr32(&cfg.prefix, "staking-x");
            let m = Sc::instantiate_msg(&cfg, &addr20(&cfg.native_prefix, "st"), &addr20(&cfg.native_prefix, "co"), &[], &[], None, None, &w.staked_denom.clone());
            let r = w.instantiate(Kind::Staking, &admin, &q, &m.to_string());
            if r.ok {
                acc.violations.push(json!({"property": "C19", "what": format!("the {build} build instantiated successfully on a chain with the other token-factory module"), "sig": "wrong chain accepted", "replay": ""}));
            }
            acc.count("c19:other_chain_refused");
        }
        let mut run = match Run::new(&cfg, &["C19"]) {
            Ok(r) => r,
            Err(r) => {
                acc.violations.push(json!({"property": "C19", "what": format!("instantiate refused on the matching chain: {}", r.err), "sig": "instantiate refused", "replay": ""}));
                continue;
            }
        };
        run.digests = Some(vec![]);
        // the create-denom message of instantiation
        {
            let mut w = World::new(ChainKind::built(), &cfg.prefix, &cfg.native_prefix, &cfg.channel);
            let sc = &run.sc;
            let m = Sc::instantiate_msg(&cfg, &sc.staker, &sc.collector, &sc.validators, &sc.monitors, None, None, &sc.s);
            let r = w.instantiate(Kind::Staking, &sc.admin, &sc.q, &m.to_string());
            let creates: Vec<&Ev> = r.events.iter().filter(|e| matches!(e, Ev::TfCreate { .. })).collect();
            let ok = creates.len() == 1 && matches!(creates[0], Ev::TfCreate { url, sender, subdenom, denom, raw } if url == &format!("{}MsgCreateDenom", w.kind.tf_prefix()) && sender == &sc.q && subdenom == &cfg.subdenom && denom == &sc.t && {
                let mut enc = vec![];
                crate::prim::put_str(&mut enc, 1, &sc.q);
                crate::prim::put_str(&mut enc, 2, &cfg.subdenom);
                &enc == raw
            });
            if !ok {
                let what = format!("instantiation emitted create-denom messages {creates:?}; expected one canonical {}MsgCreateDenom(sender = contract, subdenom = {})", w.kind.tf_prefix(), cfg.subdenom);
                acc.violations.push(json!({"property": "C19", "what": what, "sig": "create-denom message", "replay": ""}));
            }
            acc.seen("C19", &format!("create|{}|{}", cfg.subdenom, cfg.prefix));
            acc.count("c19:MsgCreateDenom");
        }
        // whatever sub-denom instantiation accepts: the denom it creates is the denom it configures
        for weird in [format!(" {}", cfg.subdenom), format!("{} ", cfg.subdenom), format!("{}\n", cfg.subdenom), format!("\t{}", cfg.subdenom), cfg.subdenom.to_uppercase(), format!("{}x", cfg.subdenom), "a".repeat(45), "LongSubDenom".repeat(5)] {
            let mut w = World::new(ChainKind::built(), &cfg.prefix, &cfg.native_prefix, &cfg.channel);
            let sc = &run.sc;
            let mut c2 = cfg.clone();
            c2.subdenom = weird.clone();
            let m = Sc::instantiate_msg(&c2, &sc.staker, &sc.collector, &sc.validators, &sc.monitors, None, None, &sc.s);
            let r = w.instantiate(Kind::Staking, &sc.admin, &sc.q, &m.to_string());
            acc.seen("C19", &format!("weird-subdenom|{}|{}", weird.len() - cfg.subdenom.len(), r.ok));
            if r.ok {
                let created: Vec<String> = r.events.iter().filter_map(|e| if let Ev::TfCreate { denom, .. } = e { Some(denom.clone()) } else { None }).collect();
                let configured = w.query(&sc.q, "{\"config\":{}}").ok().map(|c| vs(&c, "liquid_stake_token_denom")).unwrap_or_default();
                if created != vec![configured.clone()] {
                    acc.violations.push(json!({"property": "C19", "what": format!("instantiation with sub-denom {weird:?} created {created:?} but configured the LST denom {configured:?}"), "sig": "created denom differs from configured denom", "replay": ""}));
                }
            }
        }
        run.prologue();
        // configuration messages that validation refuses (staked-asset denoms of other shapes, other chains'
        // voucher prefixes): both builds must refuse the same ones — the outcome is part of the digest
        {
            let sc = run.sc.clone();
            let h64 = "A".repeat(64);
            for d in [format!("l2/{h64}"), format!("l1/{h64}"), format!("move/{h64}"), format!("evm/{h64}"), format!("factory/{}/x", sc.q), "uinit".to_string(), "uosmo".to_string(), format!("ibc/{}", "A".repeat(63)), format!("IBC/{h64}")] {
                run.step(Op::exec(&sc.admin, &sc.q, json!({"update_config": {"protocol_chain_config": {"account_address_prefix": sc.cfg.prefix, "ibc_token_denom": d, "ibc_channel_id": sc.cfg.channel, "minimum_liquid_stake_amount": sc.cfg.min_stake.to_string(), "oracle_address": sc.oracle}}}), vec![]));
            }
        }
        let mut g = Gen::new(hseed ^ 0x1919, Profile::balanced());
        run.random_steps(&mut g, steps);
        for (k, v) in &run.model.counters {
            acc.add(k, *v);
        }
        for (p, n) in &run.model.evals {
            *acc.evals.entry(p.to_string()).or_insert(0) += n;
        }
        for (p, s) in &run.model.distinct {
            acc.distinct.entry(p.to_string()).or_default().extend(s.iter());
        }
        acc.count("histories");
        acc.add("steps", run.steps);
        let d = run.digests.clone().unwrap_or_default();
        acc.extra.insert(format!("digest:{shard}:{h}"), d.iter().map(|x| format!("{x:x}")).collect::<Vec<_>>().join(","));
        let tpath = format!("{trace_dir}/{build}/{seed}-{shard}-{h}.json");
        let _ = std::fs::write(&tpath, run.replay_json(hseed, run.trace.len()).to_string());
        for v in &run.viols {
            if v.prop == "C19" {
                let sig = crate::sig_of(&v.what);
                if sigs.insert(sig.clone()) {
                    let path = format!("{replay_dir}/C19-{build}-{seed}-{shard}-{h}.json");
                    let _ = std::fs::create_dir_all(&replay_dir);
                    let _ = std::fs::write(&path, run.replay_json(hseed, run.first_viol_at.unwrap_or(run.trace.len())).to_string());
                    acc.violations.push(json!({"property": "C19", "what": format!("[{build} build] {}", v.what), "sig": sig, "replay": path}));
                }
            }
        }
        if acc.samples.is_empty() {
            let ev = run.trace.iter().rev().take(3).collect::<Vec<_>>();
            acc.samples.push(json!({"lane": "c19", "build": build, "cfg": serde_json::to_value(&run.sc.cfg).unwrap(), "steps": run.steps, "last_ops": ev}));
        }
    }
}

/// re-execute a recorded trace and print the digests (used by `check` to compare two builds)
pub fn digest_of_trace(v: &Value) -> Result<Vec<u64>, String> {
    let cfg: Cfg = serde_json::from_value(v.get("cfg").cloned().ok_or("cfg")?).map_err(|e| e.to_string())?;
    let trace: Vec<Op> = serde_json::from_value(v.get("trace").cloned().ok_or("trace")?).map_err(|e| e.to_string())?;
    let mut run = Run::new(&cfg, &["C19"]).map_err(|r| r.err)?;
    run.digests = Some(vec![]);
    for op in trace {
        run.step(op);
    }
    Ok(run.digests.unwrap_or_default())
}
