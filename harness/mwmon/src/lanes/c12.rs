//! C12: two-step, seven-day admin handover on both contracts, against a reference state machine.
//! Exhaustive over all sequences up to a bound (prefix-tree DFS on world clones) + random long ones.
use crate::prim::Rng;
use crate::scenario::*;
use crate::world::*;
use crate::{Acc, Args};
use serde_json::{json, Value};

const WEEK: u64 = 7 * 24 * 3600;

#[derive(Clone, Debug, PartialEq)]
struct M {
    admin: usize,
    nominee: Option<usize>,
    not_before: u64,
}

/// symbols: 0..20 = sender (0..4) x action (nominate a, nominate b, revoke, accept, nominate self);
/// 20..23 = waits; 23 = CircuitBreaker by the current admin, 24 = ResumeContract by the current admin
/// (staking only; they must not influence the handover)
const NSYM: usize = 25;

fn alphabet(core: bool) -> Vec<usize> {
    (0..NSYM).filter(|s| !core || (*s < 23 && (*s >= 20 || *s % 5 != 4))).collect()
}

fn sym_name(s: usize) -> String {
    let who = ["p0", "a", "b", "x"];
    let act = ["nominate(a)", "nominate(b)", "revoke", "accept", "nominate(self)"];
    match s {
        0..=19 => format!("{}:{}", who[s / 5], act[s % 5]),
        20..=22 => ["wait(7d-1s)", "wait(1s)", "wait(7d)"][s - 20].to_string(),
        23 => "admin:halt".into(),
        _ => "admin:resume".into(),
    }
}

struct Ctx {
    treasury: bool,
    contract: String,
    who: [String; 4],
    validator: String,
}

fn exec_sym(ctx: &Ctx, w: &mut World, m: &mut M, s: usize) -> Option<String> {
    if (20..23).contains(&s) {
        w.advance([WEEK - 1, 1, WEEK][s - 20]);
        return None;
    }
    if s >= 23 {
        if !ctx.treasury {
            let msg = if s == 23 { json!({"circuit_breaker": {}}) } else { json!({"resume_contract": {"total_native_token": "0", "total_liquid_stake_token": "0", "total_reward_amount": "0"}}) };
            let r = w.exec(&ctx.who[m.admin], &ctx.contract, &msg.to_string(), &[]);
            if !r.panics.is_empty() {
                return Some(format!("{} panicked: {:?}", sym_name(s), r.panics));
            }
        }
        return None;
    }
    let sender = s / 5;
    let act = s % 5;
    let msg = match act {
        0 => json!({"transfer_ownership": {"new_owner": ctx.who[1]}}),
        1 => json!({"transfer_ownership": {"new_owner": ctx.who[2]}}),
        4 => json!({"transfer_ownership": {"new_owner": ctx.who[sender]}}),
        2 => json!({"revoke_ownership_transfer": {}}),
        _ => json!({"accept_ownership": {}}),
    };
    let now = w.now_s();
    let r = w.exec(&ctx.who[sender], &ctx.contract, &msg.to_string(), &[]);
    // reference machine
    let want = match act {
        0 | 1 | 4 => {
            if sender == m.admin {
                m.nominee = Some(match act {
                    0 => 1,
                    1 => 2,
                    _ => sender,
                });
                m.not_before = now + WEEK;
                true
            } else {
                false
            }
        }
        2 => {
            if sender == m.admin {
                m.nominee = None;
                true
            } else {
                false
            }
        }
        _ => {
            if m.nominee == Some(sender) && now >= m.not_before {
                m.admin = sender;
                m.nominee = None;
                true
            } else {
                false
            }
        }
    };
    if !r.panics.is_empty() {
        return Some(format!("{} panicked: {:?}", sym_name(s), r.panics));
    }
    if r.ok != want {
        return Some(format!("{} at t={} {} but the handover rules say it must {} ({})", sym_name(s), now, if r.ok { "succeeded" } else { "failed" }, if want { "succeed" } else { "fail" }, r.err));
    }
    None
}

/// who holds admin rights right now? (treasury: Config query; staking: admin-only probe on clones)
fn check_admin(ctx: &Ctx, w: &World, m: &M) -> Option<String> {
    if ctx.treasury {
        match w.query(&ctx.contract, "{\"config\":{}}") {
            Ok(v) => {
                let a = vs(&v, "admin");
                if a != ctx.who[m.admin] {
                    return Some(format!("treasury Config.admin is {a}, the handover rules say {}", ctx.who[m.admin]));
                }
            }
            Err(e) => return Some(format!("treasury config query failed: {e}")),
        }
        // admin-only probe as well
        for i in 0..4 {
            let mut c = w.clone();
            let r = c.exec(&ctx.who[i], &ctx.contract, &json!({"update_config": {"trader": ctx.who[3], "allowed_swap_routes": null}}).to_string(), &[]);
            if r.ok != (i == m.admin) {
                return Some(format!("treasury admin-only UpdateConfig by {} {}: admin should be {}", ["p0", "a", "b", "x"][i], if r.ok { "succeeded" } else { "failed" }, ["p0", "a", "b", "x"][m.admin]));
            }
        }
    } else {
        for i in 0..4 {
            let mut c = w.clone();
            let r = c.exec(&ctx.who[i], &ctx.contract, &json!({"add_validator": {"new_validator": ctx.validator}}).to_string(), &[]);
            if r.ok != (i == m.admin) {
                return Some(format!("staking admin-only AddValidator by {} {}: admin should be {}", ["p0", "a", "b", "x"][i], if r.ok { "succeeded" } else { "failed" }, ["p0", "a", "b", "x"][m.admin]));
            }
        }
        // pending owner reported by the State query
        if let Ok(v) = w.query(&ctx.contract, "{\"state\":{}}") {
            let p = vs(&v, "pending_owner");
            let want = m.nominee.map(|i| ctx.who[i].clone()).unwrap_or_default();
            if p != want {
                return Some(format!("State.pending_owner is '{p}', the handover rules say '{want}'"));
            }
        }
    }
    None
}

fn setup(treasury: bool) -> (Ctx, World) {
    let mut cfg = Cfg::default_cfg();
    // (shorter than the seven-day lock: the lock does not depend on any other configured period)
    cfg.unbonding = 3 * 24 * 3600;
    cfg.batch_period = 3600;
    let sc = Sc::new(&cfg).expect("instantiate");
    let who = [sc.admin.clone(), sc.users[0].clone(), sc.users[1].clone(), sc.users[2].clone()];
    let contract = if treasury { sc.treasury.clone().unwrap() } else { sc.q.clone() };
    let validator = addr20(&cfg.val_prefix, "probe-validator");
    (Ctx { treasury, contract, who, validator }, sc.w)
}

pub fn run_seq(treasury: bool, seq: &[usize]) -> Vec<String> {
    let (ctx, mut w) = setup(treasury);
    let mut m = M { admin: 0, nominee: None, not_before: 0 };
    let mut out = vec![];
    for s in seq {
        if let Some(e) = exec_sym(&ctx, &mut w, &mut m, *s) {
            out.push(e);
            break;
        }
    }
    if out.is_empty() {
        if let Some(e) = check_admin(&ctx, &w, &m) {
            out.push(e);
        }
    }
    out
}

fn dfs(ctx: &Ctx, alpha: &[usize], w: &World, m: &M, depth: usize, max: usize, path: &mut Vec<usize>, acc: &mut Acc, viol: &mut Vec<(Vec<usize>, String)>, nodes: &mut u64) {
    if depth == max {
        acc.count("c12:sequences");
        if let Some(e) = check_admin(ctx, w, m) {
            viol.push((path.clone(), e));
        }
        acc.seen("C12", &format!("{}|{:?}|{:?}|{}", ctx.treasury, m.admin, m.nominee, (w.now_s() as i128 - m.not_before as i128).clamp(-2, 2)));
        return;
    }
    for &s in alpha {
        // two waits in a row add nothing new below depth; keep them anyway for exactness of the bound
        let mut w2 = w.clone();
        let mut m2 = m.clone();
        path.push(s);
        *nodes += 1;
        let was_admin = m2.admin;
        match exec_sym(ctx, &mut w2, &mut m2, s) {
            Some(e) => {
                if viol.len() < 20 {
                    viol.push((path.clone(), e));
                }
            }
            None => {
                if m2.admin != was_admin {
                    acc.count("c12:handovers");
                    if let Some(e) = check_admin(ctx, &w2, &m2) {
                        viol.push((path.clone(), e));
                    }
                }
                if s < 20 && s % 5 == 3 {
                    let d = (w.now_s() as i128 - m.not_before as i128).clamp(-2, 2);
                    acc.count(&format!("c12:accept_at_{d}"));
                }
                dfs(ctx, alpha, &w2, &m2, depth + 1, max, path, acc, viol, nodes);
            }
        }
        path.pop();
    }
}

pub fn run(a: &Args, acc: &mut Acc) {
    let seed = a.u64("seed", 1);
    let shard = a.u64("shard", 0);
    let nshards = a.u64("nshards", 1);
    let depth = a.u64("depth", 4) as usize;
    let random = a.u64("random", 200);
    let core = a.s("alphabet", "full") == "core";
    let alpha = alphabet(core);
    let replay_dir = a.s("replay-dir", "/verif/replays");
    let mut viol: Vec<(bool, Vec<usize>, String)> = vec![];
    // exhaustive: first symbol partitions the work over the shards
    for treasury in [false, true] {
        let (ctx, w) = setup(treasury);
        let m = M { admin: 0, nominee: None, not_before: 0 };
        let mut nodes = 0u64;
        // the first two symbols partition the work over the shards
        let mut job = 0u64;
        for &first in &alpha {
            let mut w1 = w.clone();
            let mut m1 = m.clone();
            if let Some(e) = exec_sym(&ctx, &mut w1, &mut m1, first) {
                if shard == 0 {
                    viol.push((treasury, vec![first], e));
                }
                continue;
            }
            if depth < 2 {
                continue;
            }
            for &second in &alpha {
                job += 1;
                if job % nshards != shard {
                    continue;
                }
                let mut w2 = w1.clone();
                let mut m2 = m1.clone();
                let mut path = vec![first, second];
                let mut v = vec![];
                nodes += 1;
                match exec_sym(&ctx, &mut w2, &mut m2, second) {
                    Some(e) => v.push((path.clone(), e)),
                    None => dfs(&ctx, &alpha, &w2, &m2, 2, depth, &mut path, acc, &mut v, &mut nodes),
                }
                for (p, e) in v {
                    viol.push((treasury, p, e));
                }
            }
        }
        acc.add("c12:nodes", nodes);
    }
    acc.notes.push(format!("exhaustive over all {}^{depth} sequences of length {depth} per contract ({} alphabet, sharded by the first two symbols)", alpha.len(), if core { "core" } else { "full" }));
    // random long sequences, biased to the deadline
    let mut rng = Rng::new(seed ^ (shard + 1).wrapping_mul(0x9E3779B97F4A7C15) ^ 0xC12);
    for _ in 0..random {
        let treasury = rng.chance(1, 2);
        let n = rng.range(6, 40) as usize;
        let seq: Vec<usize> = (0..n).map(|_| if rng.chance(1, 3) { 20 + rng.below(3) as usize } else { rng.below(NSYM as u64) as usize }).collect();
        let v = run_seq(treasury, &seq);
        acc.count("c12:random_sequences");
        acc.seen("C12", &format!("rnd|{treasury}|{:?}", &seq[..6.min(seq.len())]));
        for e in v {
            viol.push((treasury, seq.clone(), e));
        }
    }
    if acc.samples.is_empty() {
        acc.samples.push(json!({"lane": "c12", "sequence": (0..depth).map(|i| sym_name(alpha[(i * 7 + 3) % alpha.len()])).collect::<Vec<_>>(), "alphabet": alpha.iter().map(|s| sym_name(*s)).collect::<Vec<_>>()}));
    }
    for (i, (treasury, seq, e)) in viol.iter().enumerate().take(5) {
        let path = format!("{replay_dir}/C12-{seed}-{shard}-{i}.json");
        let doc = json!({"engine": "lane", "lane": "c12", "props": ["C12"], "case": {"treasury": treasury, "seq": seq, "names": seq.iter().map(|s| sym_name(*s)).collect::<Vec<_>>()}});
        let _ = std::fs::create_dir_all(&replay_dir);
        let _ = std::fs::write(&path, doc.to_string());
        let what = format!("{} contract, sequence {:?}: {e}", if *treasury { "treasury" } else { "staking" }, seq.iter().map(|s| sym_name(*s)).collect::<Vec<_>>());
        acc.violations.push(json!({"property": "C12", "what": what, "sig": crate::sig_of(e), "replay": path}));
    }
}

pub fn replay(case: &Value) -> Result<Vec<(String, String)>, String> {
    let treasury = case.get("treasury").and_then(|x| x.as_bool()).unwrap_or(false);
    let seq: Vec<usize> = case.get("seq").and_then(|x| x.as_array()).ok_or("seq")?.iter().filter_map(|x| x.as_u64().map(|v| v as usize)).collect();
    Ok(run_seq(treasury, &seq).into_iter().map(|e| ("C12".to_string(), e)).collect())
}
