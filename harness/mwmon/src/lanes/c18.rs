//! C18: migrations are version-gated and preserve every value-bearing record.
//! Legacy stores are synthesised by the harness itself (byte layouts written here, not by the
//! contract's legacy types).
use crate::gen::*;
use crate::hist::*;
use crate::obs::*;
use crate::prim::Rng;
use crate::scenario::*;
use crate::store::MemStore;
use crate::world::*;
use crate::{Acc, Args};
use serde_json::{json, Value};
use std::collections::BTreeMap;

fn map_key(ns: &str, k: u64) -> Vec<u8> {
    let mut v = vec![(ns.len() >> 8) as u8, (ns.len() & 0xff) as u8];
    v.extend_from_slice(ns.as_bytes());
    v.extend_from_slice(&k.to_be_bytes());
    v
}

fn is_map_key(ns: &str, key: &[u8]) -> bool {
    let mut p = vec![(ns.len() >> 8) as u8, (ns.len() & 0xff) as u8];
    p.extend_from_slice(ns.as_bytes());
    key.starts_with(&p) && key.len() == p.len() + 8
}

#[derive(Clone, Debug)]
pub struct Legacy {
    pub packets: Vec<(u64, u128, String)>,
    pub replies: Vec<(u64, u128)>,
}

fn gen_legacy(rng: &mut Rng) -> Legacy {
    let np = match rng.below(6) {
        0 => 0,
        1 => 1,
        // more than any plausible page size, several times over
        5 => rng.range(49, 160),
        _ => rng.range(2, 14),
    };
    let consecutive = np > 40 && rng.chance(2, 3);
    let mut packets = vec![];
    let mut seq = rng.below(5);
    for _ in 0..np {
        seq += if consecutive { 1 } else { 1 + rng.below(4) };
        let st = rng.pick(&["sent", "ack_failure", "timed_out", "sent", "ack_success"]).to_string();
        let amt = match rng.below(4) {
            0 => 1,
            1 => 10u128.pow(rng.range(0, 27) as u32),
            _ => 1 + rng.below128(1_000_000_000_000),
        };
        packets.push((seq, amt, st));
    }
    let nr = if rng.chance(1, 2) { 0 } else { rng.range(1, 3) };
    let replies = (0..nr).map(|i| (1_700_000_000_000_000_000u64 + i * 7 + rng.below(5), 1 + rng.below128(1_000_000_000))).collect();
    Legacy { packets, replies }
}

/// Rewrite the store of a current deployment into the 1.0.0 layout (harness-written bytes).
fn to_v1_0_0(store: &mut MemStore, leg: &Legacy) -> Result<(), String> {
    // drop whatever the current contract had in the two maps
    let keys: Vec<Vec<u8>> = store.m.keys().filter(|k| is_map_key("inflight", k) || is_map_key("ibc_waiting_for_reply", k)).cloned().collect();
    for k in keys {
        store.m.remove(&k);
    }
    for (seq, amt, st) in &leg.packets {
        let v = format!("{{\"sequence\":{seq},\"amount\":\"{amt}\",\"status\":\"{st}\"}}");
        store.m.insert(map_key("inflight", *seq), v.into_bytes());
    }
    for (id, amt) in &leg.replies {
        let v = format!("{{\"amount\":\"{amt}\"}}");
        store.m.insert(map_key("ibc_waiting_for_reply", *id), v.into_bytes());
    }
    store.m.insert(b"contract_info".to_vec(), b"{\"contract\":\"staking\",\"version\":\"1.0.0\"}".to_vec());
    Ok(())
}

/// does the current contract really use the key layout the harness assumes? (self-check)
fn layout_selfcheck(sc: &Sc) -> Result<(), String> {
    let mut s2 = sc.clone();
    s2.apply(&s2.resume(0, 0, 0));
    let u = s2.users[0].clone();
    let amt = s2.cfg.min_stake.max(5_000);
    s2.w.mint_raw(&u, &s2.s.clone(), amt);
    let r = s2.apply(&s2.stake(&u, amt, None, None, None));
    if !r.ok {
        return Err(format!("self-check stake failed: {}", r.err));
    }
    let st = s2.w.store_of(&s2.q);
    if !st.m.keys().any(|k| is_map_key("inflight", k)) {
        return Err("storage layout of the in-flight map is not the one the harness writes".into());
    }
    if !st.m.contains_key(&b"contract_info".to_vec()) || !st.m.contains_key(&b"config".to_vec()) {
        return Err("contract_info / config keys not found".into());
    }
    Ok(())
}

pub fn check_v1_1_0(sc0: &Sc, leg: &Legacy, acc: &mut Acc) -> Vec<String> {
    let mut out = vec![];
    let mut sc = sc0.clone();
    let q = sc.q.clone();
    {
        let st = &mut sc.w.contracts.get_mut(&q).unwrap().store;
        if let Err(e) = to_v1_0_0(st, leg) {
            return vec![e];
        }
    }
    // every third store has the staker configured in the all-upper-case spelling bech32 allows
    if (leg.packets.len() + leg.replies.len()) % 3 == 1 {
        let st = &mut sc.w.contracts.get_mut(&q).unwrap().store;
        if let Some(mut c) = st.m.get(&b"config".to_vec()).and_then(|v| serde_json::from_slice::<Value>(v).ok()) {
            if let Some(a) = c.get("native_chain_config").and_then(|n| n.get("staker_address")).and_then(|x| x.as_str()).map(|x| x.to_uppercase()) {
                c["native_chain_config"]["staker_address"] = json!(a);
                st.m.insert(b"config".to_vec(), c.to_string().into_bytes());
                acc.count("c18:upper_case_staker");
            }
        }
    }
    let before = sc.w.store_of(&q).clone();
    // the staker configured at the time of the upgrade (the history may have changed it)
    let staker = sc.qy(json!({"config": {}})).ok().and_then(|c| c.get("native_chain_config").map(|n| vs(n, "staker_address"))).unwrap_or_else(|| sc.staker.clone());
    let r = sc.w.migrate(&q, "{\"v1_0_0_to_v1_1_0\":{}}");
    if !r.panics.is_empty() {
        out.push(format!("migration 1.0.0 -> 1.1.0 panicked: {:?}", r.panics));
        return out;
    }
    if !r.ok {
        out.push(format!("migration 1.0.0 -> 1.1.0 refused on a well-formed 1.0.0 store: {}", r.err));
        return out;
    }
    acc.count("c18:v1_1_0_migrated");
    let after = sc.w.store_of(&q).clone();
    // every other raw key byte-identical
    for (k, v) in &before.m {
        let special = is_map_key("inflight", k) || is_map_key("ibc_waiting_for_reply", k) || k == b"contract_info";
        if !special && after.m.get(k) != Some(v) {
            out.push(format!("migration changed unrelated key '{}'", String::from_utf8_lossy(k)));
        }
    }
    for k in after.m.keys() {
        if !before.m.contains_key(k) {
            out.push(format!("migration created key '{}'", String::from_utf8_lossy(k)));
        }
    }
    match after.m.get(&b"contract_info".to_vec()).and_then(|v| serde_json::from_slice::<Value>(v).ok()) {
        Some(ci) if vs(&ci, "version") == "1.1.0" && vs(&ci, "contract") == "staking" => {}
        other => out.push(format!("contract_info after migration: {other:?}")),
    }
    // records, through the queries of the new code
    let queue = queue_of(&sc.qy(json!({"ibc_queue": {}})).unwrap_or(Value::Null));
    let want: Vec<(u64, u128, String)> = leg.packets.clone();
    let got: Vec<(u64, u128, String)> = queue.iter().map(|p| (p.seq, p.amount, p.status.clone())).collect();
    if got != want {
        out.push(format!("tracked transfers after migration {got:?}, before {want:?}"));
    }
    for p in &queue {
        if p.denom != sc.s || p.receiver != staker {
            out.push(format!("migrated transfer {} has denom {} receiver {}, wanted {} / {staker}", p.seq, p.denom, p.receiver, sc.s));
        }
    }
    for (seq, _, _) in &leg.packets {
        // key preserved
        if !after.m.contains_key(&map_key("inflight", *seq)) {
            out.push(format!("migrated transfer {seq} is not stored under its old key"));
        }
    }
    let rq = sc.qy(json!({"ibc_reply_queue": {}})).unwrap_or(Value::Null);
    let got_r: Vec<(String, u128, String)> = rq.get("ibc_queue").and_then(|x| x.as_array()).map(|a| a.iter().map(|p| (p.get("amount").map(|c| vs(c, "denom")).unwrap_or_default(), p.get("amount").map(|c| vu128(c, "amount")).unwrap_or(0), vs(p, "receiver"))).collect()).unwrap_or_default();
    let mut want_r: Vec<(u64, u128)> = leg.replies.clone();
    want_r.sort();
    let want_r2: Vec<(String, u128, String)> = want_r.iter().map(|(_, a)| (sc.s.clone(), *a, staker.clone())).collect();
    if got_r != want_r2 {
        out.push(format!("pending replies after migration {got_r:?}, wanted {want_r2:?}"));
    }
    for (id, _) in &leg.replies {
        if !after.m.contains_key(&map_key("ibc_waiting_for_reply", *id)) {
            out.push(format!("pending reply {id} is not stored under its old key"));
        }
    }
    // operability: refundable value recoverable before the upgrade is recoverable after it
    let refundable: u128 = leg.packets.iter().filter(|p| p.2 == "ack_failure" || p.2 == "timed_out").map(|p| p.1).sum();
    let nref = leg.packets.iter().filter(|p| p.2 == "ack_failure" || p.2 == "timed_out").count();
    if nref > 0 {
        let s = sc.s.clone();
        sc.w.mint_raw(&q, &s, refundable); // the refunds happened before the upgrade
        let u = sc.users[0].clone();
        let r = sc.apply(&sc.recover(&u, None, None, None));
        if !r.ok {
            out.push(format!("recovery after migration refused: {}", r.err));
        } else {
            let sent: Vec<(String, String, u128)> = r.events.iter().filter_map(|e| if let Ev::IbcSend { receiver, denom, amount, .. } = e { Some((receiver.clone(), denom.clone(), *amount)) } else { None }).collect();
            if sent != vec![(staker.clone(), sc.s.clone(), refundable)] {
                out.push(format!("recovery after migration re-sent {sent:?}, refundable was {refundable} for {staker}"));
            }
            let left = queue_of(&sc.qy(json!({"ibc_queue": {}})).unwrap_or(Value::Null));
            if left.iter().any(|p| p.status == "ack_failure" || p.status == "timed_out") {
                out.push("refundable transfers left after the post-migration recovery".into());
            }
            acc.count("c18:post_migration_recovery");
        }
    }
    // acknowledgements for migrated in-flight transfers are processed
    for (seq, _, st) in leg.packets.iter().filter(|p| p.2 == "sent").take(2) {
        let _ = st;
        let msg = json!({"ibc_lifecycle_complete": {"ibc_ack": {"channel": sc.cfg.channel, "sequence": seq, "ack": "{}", "success": false}}});
        let r = sc.w.sudo(&q, &msg.to_string());
        let left = queue_of(&sc.qy(json!({"ibc_queue": {}})).unwrap_or(Value::Null));
        if !r.ok || !left.iter().any(|p| p.seq == *seq && p.status == "ack_failure") {
            out.push(format!("error acknowledgement for migrated transfer {seq} was not recorded"));
        }
    }
    out
}

fn legacy_cfg_0_4_18(rng: &mut Rng, sc: &Sc, v20: bool) -> Value {
    let mons: Value = if rng.chance(1, 3) { Value::Null } else { json!(sc.monitors) };
    let oracle: Value = if rng.chance(1, 2) { Value::Null } else { json!(addr32(&sc.cfg.prefix, "oracle-legacy")) };
    let mut c = json!({
        "native_token_denom": sc.s,
        "liquid_stake_token_denom": sc.t,
        "treasury_address": addr32(&sc.cfg.prefix, "treasury-legacy"),
        "monitors": mons,
        "validators": if v20 && rng.chance(1, 6) { let mut v = sc.validators.clone(); v.insert(rng.below(v.len() as u64 + 1) as usize, addr20(&sc.cfg.native_prefix, "not-a-valoper")); v } else { sc.validators.clone() },
        "batch_period": rng.range(1, 1_000_000),
        "unbonding_period": rng.range(1, 3_000_000),
        "protocol_fee_config": {"dao_treasury_fee": (if rng.chance(1, 4) { 0 } else { rng.below128(100_001) }).to_string()},
        "multisig_address_config": {"staker_address": sc.staker, "reward_collector_address": sc.collector},
        "minimum_liquid_stake_amount": rng.below128(1_000_000).to_string(),
        "ibc_channel_id": sc.cfg.channel,
        "stopped": rng.chance(1, 2),
        "oracle_address": oracle,
    });
    let o = c.as_object_mut().unwrap();
    if v20 {
        o.insert("send_fees_to_treasury".into(), json!(rng.chance(1, 2)));
    } else {
        if rng.chance(1, 2) {
            o.insert("operators".into(), json!([sc.users[0]]));
        }
        if rng.chance(1, 2) {
            o.insert("oracle_contract_address".into(), json!(addr32(&sc.cfg.prefix, "oracle-v1")));
        }
        if rng.chance(1, 2) {
            o.insert("oracle_contract_address_v2".into(), if rng.chance(1, 2) { Value::Null } else { json!(addr32(&sc.cfg.prefix, "oracle-v2")) });
        }
    }
    c
}

pub fn check_old_paths(sc0: &Sc, rng: &mut Rng, acc: &mut Acc) -> Vec<String> {
    let mut out = vec![];
    let q = sc0.q.clone();
    // ---- 0.4.18 -> 0.4.20
    {
        let mut sc = sc0.clone();
        let old = legacy_cfg_0_4_18(rng, &sc, false);
        {
            let st = &mut sc.w.contracts.get_mut(&q).unwrap().store;
            st.m.insert(b"config".to_vec(), old.to_string().into_bytes());
            st.m.insert(b"contract_info".to_vec(), b"{\"contract\":\"staking\",\"version\":\"0.4.18\"}".to_vec());
        }
        let before = sc.w.store_of(&q).clone();
        let flag = rng.chance(1, 2);
        let r = sc.w.migrate(&q, &json!({"v0_4_18_to_v0_4_20": {"send_fees_to_treasury": flag}}).to_string());
        if !r.panics.is_empty() {
            out.push(format!("migration 0.4.18 -> 0.4.20 panicked: {:?}", r.panics));
        } else if !r.ok {
            out.push(format!("migration 0.4.18 -> 0.4.20 refused on a well-formed store: {}", r.err));
        } else {
            acc.count("c18:v0_4_20_migrated");
            let after = sc.w.store_of(&q).clone();
            let new: Value = after.m.get(&b"config".to_vec()).and_then(|v| serde_json::from_slice(v).ok()).unwrap_or(Value::Null);
            for k in ["native_token_denom", "liquid_stake_token_denom", "treasury_address", "validators", "batch_period", "unbonding_period", "protocol_fee_config", "multisig_address_config", "minimum_liquid_stake_amount", "ibc_channel_id", "stopped"] {
                if new.get(k) != old.get(k) {
                    out.push(format!("0.4.18 -> 0.4.20 altered '{k}': {:?} -> {:?}", old.get(k), new.get(k)));
                }
            }
            for k in ["monitors", "oracle_address"] {
                let a = old.get(k).cloned().unwrap_or(Value::Null);
                let b = new.get(k).cloned().unwrap_or(Value::Null);
                if a != b {
                    out.push(format!("0.4.18 -> 0.4.20 altered '{k}': {a} -> {b}"));
                }
            }
            if new.get("send_fees_to_treasury") != Some(&json!(flag)) {
                out.push("0.4.18 -> 0.4.20 did not record send_fees_to_treasury".into());
            }
            for (k, v) in &before.m {
                if k != b"config" && k != b"contract_info" && after.m.get(k) != Some(v) {
                    out.push(format!("0.4.18 -> 0.4.20 changed unrelated key '{}'", String::from_utf8_lossy(k)));
                }
            }
        }
    }
    // ---- 0.4.20 -> 1.0.0
    {
        let mut sc = sc0.clone();
        let old = legacy_cfg_0_4_18(rng, &sc, true);
        {
            let st = &mut sc.w.contracts.get_mut(&q).unwrap().store;
            st.m.insert(b"config".to_vec(), old.to_string().into_bytes());
            st.m.insert(b"contract_info".to_vec(), b"{\"contract\":\"staking\",\"version\":\"0.4.20\"}".to_vec());
        }
        let before = sc.w.store_of(&q).clone();
        let msg = json!({"v0_4_20_to_v1_0_0": {"native_account_address_prefix": sc.cfg.native_prefix, "native_validator_address_prefix": sc.cfg.val_prefix, "native_token_denom": "utia", "protocol_account_address_prefix": sc.cfg.prefix}});
        let r = sc.w.migrate(&q, &msg.to_string());
        let foreign_validator = old["validators"].as_array().map(|a| a.iter().any(|v| !matches!(crate::prim::bech32_decode(v.as_str().unwrap_or("")), Some((h, _, _)) if h == sc.cfg.val_prefix))).unwrap_or(false);
        if !r.panics.is_empty() {
            out.push(format!("migration 0.4.20 -> 1.0.0 panicked: {:?}", r.panics));
        } else if foreign_validator {
            // a stored validator that is not an address under the validator prefix named in the message: the
            // newer layout cannot hold it, so either the migration is refused whole or the set is kept as it was
            acc.count("c18:v1_0_0_foreign_validator");
            if r.ok {
                let kept = sc.qy(json!({"config": {}})).ok().and_then(|c| c.get("native_chain_config").and_then(|n| n.get("validators")).cloned()).unwrap_or(Value::Null);
                if kept != old["validators"] {
                    out.push(format!("0.4.20 -> 1.0.0 succeeded but altered the validator set: {} -> {kept}", old["validators"]));
                }
            } else if sc.w.store_of(&q) != &before {
                out.push("refused 0.4.20 -> 1.0.0 migration changed storage".into());
            }
        } else if !r.ok {
            out.push(format!("migration 0.4.20 -> 1.0.0 refused on a well-formed store: {}", r.err));
        } else {
            acc.count("c18:v1_0_0_migrated");
            let c = sc.qy(json!({"config": {}})).unwrap_or(Value::Null);
            let n = c.get("native_chain_config").cloned().unwrap_or(Value::Null);
            let p = c.get("protocol_chain_config").cloned().unwrap_or(Value::Null);
            let f = c.get("protocol_fee_config").cloned().unwrap_or(Value::Null);
            let send = old.get("send_fees_to_treasury").and_then(|x| x.as_bool()).unwrap_or(false);
            let checks: Vec<(&str, Value, Value)> = vec![
                ("validators", n.get("validators").cloned().unwrap_or(Value::Null), old["validators"].clone()),
                ("staker", n.get("staker_address").cloned().unwrap_or(Value::Null), old["multisig_address_config"]["staker_address"].clone()),
                ("collector", n.get("reward_collector_address").cloned().unwrap_or(Value::Null), old["multisig_address_config"]["reward_collector_address"].clone()),
                ("unbonding_period", n.get("unbonding_period").cloned().unwrap_or(Value::Null), old["unbonding_period"].clone()),
                ("native prefix", n.get("account_address_prefix").cloned().unwrap_or(Value::Null), json!(sc.cfg.native_prefix)),
                ("validator prefix", n.get("validator_address_prefix").cloned().unwrap_or(Value::Null), json!(sc.cfg.val_prefix)),
                ("native token denom", n.get("token_denom").cloned().unwrap_or(Value::Null), json!("utia")),
                ("protocol prefix", p.get("account_address_prefix").cloned().unwrap_or(Value::Null), json!(sc.cfg.prefix)),
                ("channel", p.get("ibc_channel_id").cloned().unwrap_or(Value::Null), old["ibc_channel_id"].clone()),
                ("ibc denom", p.get("ibc_token_denom").cloned().unwrap_or(Value::Null), old["native_token_denom"].clone()),
                ("minimum", p.get("minimum_liquid_stake_amount").cloned().unwrap_or(Value::Null), old["minimum_liquid_stake_amount"].clone()),
                ("oracle", p.get("oracle_address").cloned().unwrap_or(Value::Null), old.get("oracle_address").cloned().unwrap_or(Value::Null)),
                ("fee rate", f.get("dao_treasury_fee").cloned().unwrap_or(Value::Null), old["protocol_fee_config"]["dao_treasury_fee"].clone()),
                ("treasury", f.get("treasury_address").cloned().unwrap_or(Value::Null), if send { old["treasury_address"].clone() } else { Value::Null }),
                ("LST denom", c.get("liquid_stake_token_denom").cloned().unwrap_or(Value::Null), old["liquid_stake_token_denom"].clone()),
                ("batch_period", c.get("batch_period").cloned().unwrap_or(Value::Null), old["batch_period"].clone()),
                ("monitors", c.get("monitors").cloned().unwrap_or(Value::Null), if old["monitors"].is_null() { json!([]) } else { old["monitors"].clone() }),
                ("stopped", c.get("stopped").cloned().unwrap_or(Value::Null), old["stopped"].clone()),
            ];
            for (name, got, want) in checks {
                if got != want {
                    out.push(format!("0.4.20 -> 1.0.0 translated '{name}' as {got}, old value {want}"));
                }
            }
            let after = sc.w.store_of(&q).clone();
            for (k, v) in &before.m {
                if k != b"config" && k != b"contract_info" && after.m.get(k) != Some(v) {
                    out.push(format!("0.4.20 -> 1.0.0 changed unrelated key '{}'", String::from_utf8_lossy(k)));
                }
            }
        }
    }
    out
}

/// stored version x stored name x message variant => success iff name matches and version is the path's source
pub fn check_gate(sc0: &Sc, acc: &mut Acc) -> Vec<String> {
    let mut out = vec![];
    let versions = ["0.4.18", "0.4.20", "1.0.0", "1.0.1", "1.1.0", "1.2.0", "2.0.0", "0.9.9", "garbage", "", "1.0.0+build.7", "1.1.0+hotfix.1", "0.4.20+x"];
    let names = ["staking", "treasury", "crates.io:staking", "other"];
    let msgs: [(Value, &str); 3] = [
        (json!({"v0_4_18_to_v0_4_20": {"send_fees_to_treasury": true}}), "0.4.18"),
        (json!({"v0_4_20_to_v1_0_0": {"native_account_address_prefix": sc0.cfg.native_prefix, "native_validator_address_prefix": sc0.cfg.val_prefix, "native_token_denom": "utia", "protocol_account_address_prefix": sc0.cfg.prefix}}), "0.4.20"),
        (json!({"v1_0_0_to_v1_1_0": {}}), "1.0.0"),
    ];
    let q = sc0.q.clone();
    let mut rng = Rng::new(7);
    for ver in versions {
        for name in names {
            for (msg, source) in &msgs {
                let mut sc = sc0.clone();
                // give every path the store layout of its source version so that only the gate decides
                {
                    let st = &mut sc.w.contracts.get_mut(&q).unwrap().store;
                    match *source {
                        "0.4.18" => {
                            let c = legacy_cfg_0_4_18(&mut rng, sc0, false);
                            st.m.insert(b"config".to_vec(), c.to_string().into_bytes());
                        }
                        "0.4.20" => {
                            let mut c = legacy_cfg_0_4_18(&mut rng, sc0, true);
                            c["validators"] = json!(sc0.validators); // only the gate decides here
                            st.m.insert(b"config".to_vec(), c.to_string().into_bytes());
                        }
                        _ => {
                            let _ = to_v1_0_0(st, &Legacy { packets: vec![(3, 5, "sent".into())], replies: vec![] });
                        }
                    }
                }
                set_version(&mut sc.w, &q, name, ver);
                let before = sc.w.store_of(&q).clone();
                let r = sc.w.migrate(&q, &msg.to_string());
                let want = name == "staking" && ver == *source;
                acc.seen("C18", &format!("gate|{ver}|{name}|{source}|{}", r.ok));
                acc.count(if r.ok { "c18:gate_accepted" } else { "c18:gate_refused" });
                if !r.panics.is_empty() {
                    out.push(format!("migrate ({source} path) from stored {name} {ver} panicked: {:?}", r.panics));
                }
                if r.ok != want {
                    out.push(format!("migrate ({source} path) from stored contract '{name}' version '{ver}' {}, the gate says {}", if r.ok { "succeeded" } else { "failed" }, if want { "succeed" } else { "fail" }));
                }
                if !r.ok && sc.w.store_of(&q) != &before {
                    out.push(format!("refused migration ({source} path, stored {name} {ver}) changed storage"));
                }
            }
        }
    }
    // treasury: gate only (target version = its package version)
    if let Some(t) = &sc0.treasury {
        let target = match sc0.w.store_of(t).m.get(&b"contract_info".to_vec()).and_then(|v| serde_json::from_slice::<Value>(v).ok()) {
            Some(ci) => vs(&ci, "version"),
            None => String::new(),
        };
        let tv = parse_semver(&target);
        // (build metadata does not make a version newer or older: the same core version is not "strictly newer")
        let with_build = format!("{target}+hotfix.1");
        for ver in ["0.1.0", "0.4.18", "0.4.19", "0.4.20", "0.4.21", "1.0.0", "garbage", "", with_build.as_str(), "0.4.100", "0.10.0", "0.100.7", "0.4.3", "0.3.99"] {
            for name in ["treasury", "staking", "other", "crates.io:treasury", "Treasury", "treasury "] {
                let mut sc = sc0.clone();
                set_version(&mut sc.w, t, name, ver);
                let before = sc.w.store_of(t).clone();
                let r = sc.w.migrate(t, "{}");
                let want = name == "treasury" && !ver.contains('+') && matches!((parse_semver(ver), tv), (Some(a), Some(b)) if a < b);
                acc.seen("C18", &format!("tgate|{ver}|{name}|{}", r.ok));
                if !r.panics.is_empty() {
                    out.push(format!("treasury migrate from {name} {ver} panicked: {:?}", r.panics));
                }
                if r.ok != want {
                    out.push(format!("treasury migrate from stored contract '{name}' version '{ver}' (target {target}) {}, the gate says {}", if r.ok { "succeeded" } else { "failed" }, if want { "succeed" } else { "fail" }));
                }
                if !r.ok && sc.w.store_of(t) != &before {
                    out.push("refused treasury migration changed storage".into());
                }
                if r.ok && sc.w.store_of(t).m.iter().any(|(k, v)| k != b"contract_info" && before.m.get(k) != Some(v)) {
                    out.push("treasury migration changed stored data".into());
                }
            }
        }
        acc.count("c18:treasury_gate");
    }
    out
}

fn parse_semver(s: &str) -> Option<(u64, u64, u64)> {
    let p: Vec<&str> = s.split('.').collect();
    if p.len() != 3 {
        return None;
    }
    Some((p[0].parse().ok()?, p[1].parse().ok()?, p[2].parse().ok()?))
}

fn base_state(seed: u64, steps: usize) -> Option<Sc> {
    let mut crng = Rng::new(seed);
    let mut cfg = Cfg::random(&mut crng);
    cfg.treasury = true;
    let mut run = Run::new(&cfg, &["C18"]).ok()?;
    if steps > 0 {
        run.prologue();
        let mut g = Gen::new(seed ^ 0x18, Profile::balanced());
        run.random_steps(&mut g, steps);
    }
    Some(run.sc)
}

pub fn run(a: &Args, acc: &mut Acc) {
    let seed = a.u64("seed", 1);
    let shard = a.u64("shard", 0);
    let stores = a.u64("stores", 20);
    let budget = a.u64("budget-s", 0);
    let replay_dir = a.s("replay-dir", "/verif/replays");
    let mut rng = Rng::new(seed ^ (shard + 1).wrapping_mul(0x9E3779B97F4A7C15) ^ 0xC18);
    let start = std::time::Instant::now();
    let mut nv = 0;
    let mut i = 0u64;
    let mut report = |acc: &mut Acc, what: String, case: Value| {
        nv += 1;
        if nv <= 6 {
            let path = format!("{replay_dir}/C18-{seed}-{shard}-{nv}.json");
            let _ = std::fs::create_dir_all(&replay_dir);
            let _ = std::fs::write(&path, json!({"engine": "lane", "lane": "c18", "props": ["C18"], "case": case}).to_string());
            acc.violations.push(json!({"property": "C18", "what": what, "sig": crate::sig_of(&what), "replay": path}));
        }
    };
    loop {
        if budget > 0 {
            if start.elapsed().as_secs() >= budget {
                break;
            }
        } else if i >= stores {
            break;
        }
        i += 1;
        let bseed = rng.next();
        let steps = if i % 3 == 0 { 0 } else { rng.range(5, 60) as usize };
        let Some(sc) = base_state(bseed, steps) else { continue };
        if let Err(e) = layout_selfcheck(&sc) {
            acc.inconclusive.push(format!("c18 self-check: {e}"));
            return;
        }
        let lseed = rng.next();
        let leg = gen_legacy(&mut Rng::new(lseed));
        acc.seen("C18", &format!("store|{}|{}|{}", leg.packets.len().min(5), leg.replies.len(), leg.packets.iter().filter(|p| p.2 != "sent").count().min(3)));
        for e in check_v1_1_0(&sc, &leg, acc) {
            report(acc, e, json!({"kind": "v1_1_0", "base_seed": bseed, "steps": steps, "legacy_seed": lseed}));
        }
        let oseed = rng.next();
        for e in check_old_paths(&sc, &mut Rng::new(oseed), acc) {
            report(acc, e, json!({"kind": "old", "base_seed": bseed, "steps": steps, "old_seed": oseed}));
        }
        if i % 4 == 1 {
            for e in check_gate(&sc, acc) {
                report(acc, e, json!({"kind": "gate", "base_seed": bseed, "steps": steps}));
            }
            acc.count("c18:gate_matrices");
        }
        if acc.samples.is_empty() {
            acc.samples.push(json!({"lane": "c18", "legacy_packets": leg.packets.iter().map(|p| json!({"sequence": p.0, "amount": p.1.to_string(), "status": p.2})).collect::<Vec<_>>(), "legacy_pending_replies": leg.replies.len(), "history_steps_before_downgrade": steps}));
        }
    }
    let _ = BTreeMap::<u8, u8>::new();
}

pub fn replay(case: &Value) -> Result<Vec<(String, String)>, String> {
    let bseed = vu64(case, "base_seed");
    let steps = vu64(case, "steps") as usize;
    let sc = base_state(bseed, steps).ok_or("base state")?;
    let mut acc = Acc::default();
    let v = match vs(case, "kind").as_str() {
        "v1_1_0" => check_v1_1_0(&sc, &gen_legacy(&mut Rng::new(vu64(case, "legacy_seed"))), &mut acc),
        "old" => check_old_paths(&sc, &mut Rng::new(vu64(case, "old_seed")), &mut acc),
        "gate" => check_gate(&sc, &mut acc),
        _ => return Err("unknown kind".into()),
    };
    Ok(v.into_iter().map(|e| ("C18".to_string(), e)).collect())
}
