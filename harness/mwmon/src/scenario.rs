//! A scenario = a world plus the well-known principals of one deployment, and the replayable
//! operation alphabet. Everything that goes to a contract is JSON text.
use crate::prim::Rng;
use crate::world::*;
use serde::{Deserialize, Serialize};
use serde_json::{json, Value};


pub mod u128s {
    use serde::{Deserialize, Deserializer, Serializer};
    pub fn serialize<S: Serializer>(v: &u128, s: S) -> Result<S::Ok, S::Error> {
        s.serialize_str(&v.to_string())
    }
    pub fn deserialize<'de, D: Deserializer<'de>>(d: D) -> Result<u128, D::Error> {
        let s = String::deserialize(d)?;
        s.parse().map_err(serde::de::Error::custom)
    }
}
pub mod funds_s {
    use serde::{Deserialize, Deserializer, Serialize, Serializer};
    pub fn serialize<S: Serializer>(v: &Vec<(String, u128)>, s: S) -> Result<S::Ok, S::Error> {
        let w: Vec<(String, String)> = v.iter().map(|(d, a)| (d.clone(), a.to_string())).collect();
        w.serialize(s)
    }
    pub fn deserialize<'de, D: Deserializer<'de>>(d: D) -> Result<Vec<(String, u128)>, D::Error> {
        let w: Vec<(String, String)> = Vec::deserialize(d)?;
        w.into_iter().map(|(d, a)| a.parse().map(|a| (d, a)).map_err(serde::de::Error::custom)).collect()
    }
}

#[derive(Clone, Debug, Serialize, Deserialize)]
pub struct Cfg {
    pub prefix: String,
    pub native_prefix: String,
    pub val_prefix: String,
    pub channel: String,
    pub subdenom: String,
    #[serde(with = "u128s")]
    pub fee_rate: u128,
    pub treasury: bool,
    pub oracle: bool,
    #[serde(with = "u128s")]
    pub min_stake: u128,
    pub batch_period: u64,
    pub unbonding: u64,
    pub n_users: usize,
    pub n_native_users: usize,
    pub n_monitors: usize,
    pub n_validators: usize,
    pub salt: u64,
}

impl Cfg {
    pub fn default_cfg() -> Cfg {
        Cfg {
            prefix: "osmo".into(),
            native_prefix: "celestia".into(),
            val_prefix: "celestiavaloper".into(),
            channel: "channel-123".into(),
            subdenom: "stTIA".into(),
            fee_rate: 10_000,
            treasury: true,
            oracle: true,
            min_stake: 100,
            batch_period: 86_400,
            unbonding: 1_209_600,
            n_users: 4,
            n_native_users: 2,
            n_monitors: 2,
            n_validators: 3,
            salt: 0,
        }
    }

    /// configurations at the edge of what validation accepts (C16)
    pub fn random_extreme(rng: &mut Rng) -> Cfg {
        let mut c = Cfg::random(rng);
        if rng.chance(1, 3) {
            c.fee_rate = *rng.pick(&[100_001u128, u128::MAX, 1u128 << 64, 1u128 << 127, 100_000]);
        }
        if rng.chance(1, 4) {
            c.batch_period = *rng.pick(&[0u64, u64::MAX, u64::MAX - 1_700_000_000, (u64::MAX / 2)]);
        }
        if rng.chance(1, 4) {
            c.unbonding = *rng.pick(&[0u64, u64::MAX, u64::MAX - 1_700_000_000]);
        }
        if rng.chance(1, 5) {
            c.min_stake = *rng.pick(&[0u128, u128::MAX, 1u128 << 100]);
        }
        c.n_monitors = rng.range(0, 3) as usize;
        c
    }

    pub fn random(rng: &mut Rng) -> Cfg {
        // (the last one makes a 32-byte-address account longer than 90 characters, BIP-173's limit, which cosmos ignores)
        let prefixes = ["osmo", "osmo", "osmo", "init", "mw", "celestia", "a", "longprefixforprotocolchain", "averyveryverylongprefixforaprotocolchain"];
        let nprefixes = ["celestia", "celestia", "init", "osmo", "c", "nativechainwithlongprefix"];
        let prefix = rng.pick(&prefixes).to_string();
        let native_prefix = if rng.chance(1, 6) { prefix.clone() } else { rng.pick(&nprefixes).to_string() };
        let fee_rates: [u128; 8] = [0, 1, 10_000, 99_999, 100_000, 5_000, 33_333, 50_000];
        let mins: [u128; 5] = [1, 100, 1000, 1_000_000, 10];
        let periods: [u64; 5] = [1, 60, 3600, 86_400, 345_600];
        let unb: [u64; 6] = [1, 100, 86_400, 1_209_600, 1_814_400, 0];
        // (the token-factory modules allow sub-denoms of up to 44 characters)
        let subs = ["stTIA", "milkTIA", "milkINIT", "abcd", "LiquidStakedTokenWithALongName", "LiquidStakedTokenWithTheLongestNameAllowedxx", "LiquidStakedTokenWithAlmostTheLongestNameYY"];
        Cfg {
            val_prefix: format!("{}valoper", native_prefix),
            prefix,
            native_prefix,
            channel: format!("channel-{}", *rng.pick(&[0u64, 1, 7, 123, 4242, 99999])),
            subdenom: rng.pick(&subs).to_string(),
            fee_rate: *rng.pick(&fee_rates),
            treasury: rng.chance(2, 3),
            oracle: rng.chance(2, 3),
            min_stake: *rng.pick(&mins),
            batch_period: *rng.pick(&periods),
            unbonding: *rng.pick(&unb),
            n_users: rng.range(3, 8) as usize,
            n_native_users: 2,
            n_monitors: rng.range(0, 3) as usize,
            n_validators: rng.range(1, 4) as usize,
            salt: rng.next() % 1000,
        }
    }
}

/// Replayable operations. Everything concrete: no reference to generator state.
#[derive(Clone, Debug, Serialize, Deserialize, PartialEq)]
#[serde(rename_all = "snake_case")]
pub enum Op {
    Exec { sender: String, contract: String, msg: String, #[serde(with = "funds_s")] funds: Vec<(String, u128)> },
    Hook { native_sender: String, channel: String, #[serde(with = "u128s")] amount: u128, contract: String, msg: String },
    /// like Hook, but the native account sends some OTHER token of the native chain (its voucher has another ibc/ denom)
    HookForeign { native_sender: String, channel: String, token: String, #[serde(with = "u128s")] amount: u128, contract: String, msg: String },
    Relay { channel: String, seq: u64, outcome: String },
    Sudo { contract: String, msg: String },
    Advance { secs: u64 },
    Fault { idx: u32 },
    FaultNoData { idx: u32 },
    BankMint { addr: String, denom: String, #[serde(with = "u128s")] amount: u128 },
    NativeMint { addr: String, #[serde(with = "u128s")] amount: u128 },
    NativeBurn { addr: String, #[serde(with = "u128s")] amount: u128 },
    NativeMintToken { addr: String, token: String, #[serde(with = "u128s")] amount: u128 },
    OpenChannel { channel: String },
    /// probes: executed on a throw-away clone of the world (hostile lane); only panics matter
    QueryProbe { contract: String, msg: String },
    SudoProbe { contract: String, msg: String },
    ReplyProbe { contract: String, id: u64, ok: bool, data_hex: Option<String>, err: String },
    MigrateProbe { contract: String, name: String, version: String, msg: String },
    InstantiateProbe { kind: String, sender: String, msg: String },
    ExecProbe { sender: String, contract: String, msg: String, #[serde(with = "funds_s")] funds: Vec<(String, u128)>, #[serde(with = "funds_s")] mint: Vec<(String, u128)> },
}

const KNOWN_VARIANTS: &[&str] = &[
    "liquid_stake", "liquid_unstake", "submit_batch", "withdraw", "add_validator", "remove_validator", "transfer_ownership",
    "accept_ownership", "revoke_ownership_transfer", "update_config", "receive_rewards", "receive_unstaked_tokens",
    "circuit_breaker", "resume_contract", "recover_pending_ibc_transfers", "fee_withdraw", "spend_funds",
    "swap_exact_amount_in", "swap_exact_amount_out", "malformed", "unknown_variant", "bogus",
];

impl Op {
    pub fn exec(sender: &str, contract: &str, msg: Value, funds: Vec<(String, u128)>) -> Op {
        Op::Exec { sender: sender.into(), contract: contract.into(), msg: msg.to_string(), funds }
    }
    pub fn kind(&self) -> String {
        match self {
            Op::Exec { msg, .. } | Op::Hook { msg, .. } | Op::HookForeign { msg, .. } => {
                let v: Value = serde_json::from_str(msg).unwrap_or(Value::Null);
                let k = v.as_object().and_then(|o| o.keys().next().cloned()).unwrap_or_else(|| "malformed".into());
                // byte-corrupted variant names (C16 hostile lane) all fall into one class, so that neither the
                // counters nor the distinct-case keys grow with the noise
                let k = if KNOWN_VARIANTS.contains(&k.as_str()) { k } else { "garbled_variant".to_string() };
                if matches!(self, Op::HookForeign { .. }) {
                    format!("hookforeign:{k}")
                } else if matches!(self, Op::Hook { .. }) {
                    format!("hook:{k}")
                } else {
                    k
                }
            }
            Op::Relay { outcome, .. } => format!("relay:{outcome}"),
            Op::Sudo { .. } => "sudo".into(),
            Op::Advance { .. } => "advance".into(),
            Op::Fault { .. } => "fault".into(),
            Op::FaultNoData { .. } => "fault_nodata".into(),
            Op::BankMint { .. } => "bank_mint".into(),
            Op::NativeMint { .. } => "native_mint".into(),
            Op::NativeBurn { .. } => "native_burn".into(),
            Op::NativeMintToken { .. } => "native_mint_token".into(),
            Op::OpenChannel { .. } => "open_channel".into(),
            Op::QueryProbe { .. } => "probe:query".into(),
            Op::SudoProbe { .. } => "probe:sudo".into(),
            Op::ReplyProbe { .. } => "probe:reply".into(),
            Op::MigrateProbe { .. } => "probe:migrate".into(),
            Op::InstantiateProbe { .. } => "probe:instantiate".into(),
            Op::ExecProbe { .. } => "probe:execute".into(),
        }
    }
    pub fn msg_value(&self) -> Value {
        match self {
            Op::Exec { msg, .. } | Op::Hook { msg, .. } | Op::HookForeign { msg, .. } | Op::Sudo { msg, .. } | Op::ExecProbe { msg, .. } | Op::QueryProbe { msg, .. } => serde_json::from_str(msg).unwrap_or(Value::Null),
            _ => Value::Null,
        }
    }
}

#[derive(Clone, Debug)]
pub struct Sc {
    pub cfg: Cfg,
    pub w: World,
    pub q: String,
    pub admin: String,
    pub users: Vec<String>,
    pub contract_user: String,
    pub native_users: Vec<String>,
    pub staker: String,
    pub collector: String,
    pub treasury: Option<String>,
    pub oracle: Option<String>,
    pub monitors: Vec<String>,
    pub validators: Vec<String>,
    pub s: String,
    pub t: String,
}

pub fn outcome_of(s: &str) -> PStatus {
    match s {
        "ack" => PStatus::Acked,
        "err" => PStatus::ErrAcked,
        _ => PStatus::TimedOut,
    }
}

impl Sc {
    pub fn instantiate_msg(cfg: &Cfg, staker: &str, collector: &str, validators: &[String], monitors: &[String], treasury: Option<&str>, oracle: Option<&str>, s: &str) -> Value {
        // a deployment that names no protocol-chain account at all may spell the protocol prefix in capitals
        // (accepted, and kept in lower case, by the validation): the same chain is meant
        let proto_prefix = if treasury.is_none() && oracle.is_none() && monitors.is_empty() { cfg.prefix.to_uppercase() } else { cfg.prefix.clone() };
        json!({
            "native_chain_config": {
                "account_address_prefix": cfg.native_prefix,
                "validator_address_prefix": cfg.val_prefix,
                "token_denom": NATIVE_DENOM,
                "validators": validators,
                "unbonding_period": cfg.unbonding,
                "staker_address": staker,
                "reward_collector_address": collector,
            },
            "protocol_chain_config": {
                "account_address_prefix": proto_prefix,
                "ibc_token_denom": s,
                "ibc_channel_id": cfg.channel,
                "minimum_liquid_stake_amount": cfg.min_stake.to_string(),
                "oracle_address": oracle,
            },
            "protocol_fee_config": {
                "dao_treasury_fee": cfg.fee_rate.to_string(),
                "treasury_address": treasury,
            },
            "liquid_stake_token_denom": cfg.subdenom,
            "batch_period": cfg.batch_period,
            "monitors": monitors,
        })
    }

    /// Build the deployment; returns Err(text) if the staking contract refuses to instantiate.
    pub fn new(cfg: &Cfg) -> Result<Sc, TxResult> {
        let mut w = World::new(ChainKind::built(), &cfg.prefix, &cfg.native_prefix, &cfg.channel);
        let sa = cfg.salt;
        let admin = addr20(&cfg.prefix, &format!("admin{sa}"));
        let users: Vec<String> = (0..cfg.n_users).map(|i| addr20(&cfg.prefix, &format!("user{i}-{sa}"))).collect();
        let contract_user = addr32(&cfg.prefix, &format!("usercontract{sa}"));
        let native_users: Vec<String> = (0..cfg.n_native_users).map(|i| addr20(&cfg.native_prefix, &format!("nuser{i}-{sa}"))).collect();
        let staker = addr20(&cfg.native_prefix, &format!("staker{sa}"));
        let collector = addr20(&cfg.native_prefix, &format!("collector{sa}"));
        let monitors: Vec<String> = (0..cfg.n_monitors).map(|i| addr20(&cfg.prefix, &format!("monitor{i}-{sa}"))).collect();
        let validators: Vec<String> = (0..cfg.n_validators).map(|i| addr20(&cfg.val_prefix, &format!("val{i}-{sa}"))).collect();
        let q = addr32(&cfg.prefix, &format!("staking{sa}"));
        let s = w.staked_denom.clone();
        let treasury = if cfg.treasury {
            let t = addr32(&cfg.prefix, &format!("treasury{sa}"));
            let m = json!({"admin": admin, "trader": admin, "allowed_swap_routes": []});
            // deployed by an account that is neither admin nor trader: the message names the admin
            let deployer = addr20(&cfg.prefix, &format!("deployer{sa}"));
            let r = w.instantiate(Kind::Treasury, &deployer, &t, &m.to_string());
            if !r.ok {
                return Err(r);
            }
            Some(t)
        } else {
            None
        };
        let oracle = if cfg.oracle {
            let o = addr32(&cfg.prefix, &format!("oracle{sa}"));
            w.instantiate(Kind::Oracle, &admin, &o, "{}");
            Some(o)
        } else {
            None
        };
        let m = Sc::instantiate_msg(cfg, &staker, &collector, &validators, &monitors, treasury.as_deref(), oracle.as_deref(), &s);
        let r = w.instantiate(Kind::Staking, &admin, &q, &m.to_string());
        if !r.ok {
            return Err(r);
        }
        let t = format!("factory/{}/{}", q, cfg.subdenom);
        Ok(Sc { cfg: cfg.clone(), w, q, admin, users, contract_user, native_users, staker, collector, treasury, oracle, monitors, validators, s, t })
    }

    pub fn apply(&mut self, op: &Op) -> TxResult {
        match op {
            Op::Exec { sender, contract, msg, funds } => self.w.exec(sender, contract, msg, funds),
            Op::Hook { native_sender, channel, amount, contract, msg } => self.w.hook_transfer(native_sender, channel, *amount, contract, msg),
            Op::HookForeign { native_sender, channel, token, amount, contract, msg } => self.w.hook_transfer_token(native_sender, channel, token, *amount, contract, msg),
            Op::Relay { channel, seq, outcome } => self.w.relay(channel, *seq, outcome_of(outcome)),
            Op::Sudo { contract, msg } => self.w.sudo(contract, msg),
            Op::Advance { secs } => {
                self.w.advance(*secs);
                TxResult { ok: true, ..Default::default() }
            }
            Op::Fault { idx } => {
                self.w.fault_submit = Some(*idx);
                TxResult { ok: true, ..Default::default() }
            }
            Op::FaultNoData { idx } => {
                self.w.fault_nodata = Some(*idx);
                TxResult { ok: true, ..Default::default() }
            }
            Op::BankMint { addr, denom, amount } => {
                self.w.mint_raw(addr, denom, *amount);
                TxResult { ok: true, ..Default::default() }
            }
            Op::NativeMint { addr, amount } => {
                self.w.native_mint(addr, NATIVE_DENOM, *amount);
                TxResult { ok: true, ..Default::default() }
            }
            Op::NativeMintToken { addr, token, amount } => {
                self.w.native_mint(addr, token, *amount);
                TxResult { ok: true, ..Default::default() }
            }
            Op::NativeBurn { addr, amount } => {
                let ok = self.w.native_burn(addr, NATIVE_DENOM, *amount);
                TxResult { ok, ..Default::default() }
            }
            Op::OpenChannel { channel } => {
                self.w.open_channels.insert(channel.clone());
                TxResult { ok: true, ..Default::default() }
            }
            Op::QueryProbe { contract, msg } => {
                let (r, panics) = self.w.query_raw(contract, msg);
                TxResult { ok: r.is_ok(), err: r.err().unwrap_or_default(), panics, ..Default::default() }
            }
            Op::SudoProbe { contract, msg } => {
                let mut w = self.w.clone();
                w.sudo(contract, msg)
            }
            Op::ReplyProbe { contract, id, ok, data_hex, err } => {
                let mut w = self.w.clone();
                let data = data_hex.as_ref().map(|h| cosmwasm_std::Binary::from(unhex(h)));
                let result = if *ok { cosmwasm_std::SubMsgResult::Ok(cosmwasm_std::SubMsgResponse { events: vec![], data }) } else { cosmwasm_std::SubMsgResult::Err(err.clone()) };
                w.raw_reply(contract, cosmwasm_std::Reply { id: *id, result })
            }
            Op::MigrateProbe { contract, name, version, msg } => {
                let mut w = self.w.clone();
                set_version(&mut w, contract, name, version);
                w.migrate(contract, msg)
            }
            Op::InstantiateProbe { kind, sender, msg } => {
                let mut w = self.w.clone();
                let k = if kind == "treasury" { Kind::Treasury } else { Kind::Staking };
                let addr = addr32(&w.prefix.clone(), "probe-instance");
                w.instantiate(k, sender, &addr, msg)
            }
            Op::ExecProbe { sender, contract, msg, funds, mint } => {
                let mut w = self.w.clone();
                for (d, a) in mint {
                    w.mint_raw(sender, d, *a);
                }
                w.exec(sender, contract, msg, funds)
            }
        }
    }

    // ---- message builders
    pub fn resume(&self, n: u128, l: u128, r: u128) -> Op {
        Op::exec(&self.admin, &self.q, json!({"resume_contract": {"total_native_token": n.to_string(), "total_liquid_stake_token": l.to_string(), "total_reward_amount": r.to_string()}}), vec![])
    }
    pub fn stake(&self, user: &str, amount: u128, mint_to: Option<&str>, to_native: Option<bool>, expected: Option<u128>) -> Op {
        Op::exec(user, &self.q, json!({"liquid_stake": {"mint_to": mint_to, "transfer_to_native_chain": to_native, "expected_mint_amount": expected.map(|e| e.to_string())}}), coin(&self.s, amount))
    }
    pub fn unstake(&self, user: &str, amount: u128) -> Op {
        Op::exec(user, &self.q, json!({"liquid_unstake": {}}), coin(&self.t, amount))
    }
    pub fn submit(&self, user: &str) -> Op {
        Op::exec(user, &self.q, json!({"submit_batch": {}}), vec![])
    }
    pub fn withdraw(&self, user: &str, batch: u64) -> Op {
        Op::exec(user, &self.q, json!({"withdraw": {"batch_id": batch}}), vec![])
    }
    pub fn reward(&self, native_sender: &str, channel: &str, amount: u128) -> Op {
        Op::Hook { native_sender: native_sender.into(), channel: channel.into(), amount, contract: self.q.clone(), msg: json!({"receive_rewards": {}}).to_string() }
    }
    pub fn deliver(&self, native_sender: &str, channel: &str, batch: u64, amount: u128) -> Op {
        Op::Hook { native_sender: native_sender.into(), channel: channel.into(), amount, contract: self.q.clone(), msg: json!({"receive_unstaked_tokens": {"batch_id": batch}}).to_string() }
    }
    pub fn recover(&self, caller: &str, paginated: Option<bool>, selected: Option<Vec<u64>>, receiver: Option<&str>) -> Op {
        Op::exec(caller, &self.q, json!({"recover_pending_ibc_transfers": {"paginated": paginated, "selected_packets": selected, "receiver": receiver}}), vec![])
    }
    pub fn fee_withdraw(&self, caller: &str, amount: u128) -> Op {
        Op::exec(caller, &self.q, json!({"fee_withdraw": {"amount": amount.to_string()}}), vec![])
    }
    pub fn breaker(&self, caller: &str) -> Op {
        Op::exec(caller, &self.q, json!({"circuit_breaker": {}}), vec![])
    }

    pub fn qy(&self, msg: Value) -> Result<Value, String> {
        self.w.query(&self.q, &msg.to_string())
    }
}

pub fn unhex(h: &str) -> Vec<u8> {
    (0..h.len() / 2).filter_map(|i| u8::from_str_radix(&h[2 * i..2 * i + 2], 16).ok()).collect()
}

/// cw2 contract_info record, written the way cw2 stores it (Item "contract_info", JSON)
pub fn set_version(w: &mut World, contract: &str, name: &str, version: &str) {
    if let Some(c) = w.contracts.get_mut(contract) {
        let v = serde_json::json!({"contract": name, "version": version}).to_string();
        c.store.m.insert(b"contract_info".to_vec(), v.into_bytes());
    }
}
