//! Storage, Api and Querier handed to the contracts. Own implementations (not cosmwasm's mocks).
use crate::prim;
use cosmwasm_std::{
    Addr, Api, Binary, CanonicalAddr, ContractResult, Order, Querier, QuerierResult, Record,
    RecoverPubkeyError, StdError, StdResult, Storage, SystemError, SystemResult, VerificationError,
};
use std::collections::BTreeMap;
use std::ops::Bound;

#[derive(Clone, Default, Debug, PartialEq, Eq)]
pub struct MemStore {
    pub m: BTreeMap<Vec<u8>, Vec<u8>>,
}

impl Storage for MemStore {
    fn get(&self, key: &[u8]) -> Option<Vec<u8>> {
        self.m.get(key).cloned()
    }
    fn range<'a>(
        &'a self,
        start: Option<&[u8]>,
        end: Option<&[u8]>,
        order: Order,
    ) -> Box<dyn Iterator<Item = Record> + 'a> {
        let lo = match start {
            Some(s) => Bound::Included(s.to_vec()),
            None => Bound::Unbounded,
        };
        let hi = match end {
            Some(e) => Bound::Excluded(e.to_vec()),
            None => Bound::Unbounded,
        };
        if let (Some(s), Some(e)) = (start, end) {
            if s >= e {
                return Box::new(std::iter::empty());
            }
        }
        let it = self.m.range((lo, hi)).map(|(k, v)| (k.clone(), v.clone()));
        match order {
            Order::Ascending => Box::new(it),
            Order::Descending => Box::new(it.rev()),
        }
    }
    fn set(&mut self, key: &[u8], value: &[u8]) {
        if value.is_empty() {
            // the VM forbids empty values; mirror cosmwasm's MemoryStorage behaviour
            panic!("TL;DR: Value must not be empty in Storage::set but in most cases you can use Storage::remove instead.");
        }
        self.m.insert(key.to_vec(), value.to_vec());
    }
    fn remove(&mut self, key: &[u8]) {
        self.m.remove(key);
    }
}

#[derive(Clone, Debug)]
pub struct SimApi {
    pub prefix: String,
}

impl SimApi {
    pub fn valid(&self, human: &str) -> bool {
        match prim::bech32_decode(human) {
            Some((hrp, payload, prim::Variant::Bech32)) => {
                hrp == self.prefix
                    && (payload.len() == 20 || payload.len() == 32)
                    && human.bytes().all(|b| !b.is_ascii_uppercase())
            }
            _ => false,
        }
    }
}

impl Api for SimApi {
    fn addr_validate(&self, human: &str) -> StdResult<Addr> {
        if self.valid(human) {
            Ok(Addr::unchecked(human))
        } else {
            Err(StdError::generic_err(format!("invalid address: {human}")))
        }
    }
    fn addr_canonicalize(&self, human: &str) -> StdResult<CanonicalAddr> {
        match prim::bech32_decode(human) {
            Some((hrp, payload, prim::Variant::Bech32)) if hrp == self.prefix => Ok(CanonicalAddr::from(payload)),
            _ => Err(StdError::generic_err("invalid address")),
        }
    }
    fn addr_humanize(&self, canonical: &CanonicalAddr) -> StdResult<Addr> {
        Ok(Addr::unchecked(prim::bech32_encode(&self.prefix, canonical.as_slice())))
    }
    fn secp256k1_verify(&self, _: &[u8], _: &[u8], _: &[u8]) -> Result<bool, VerificationError> {
        Err(VerificationError::GenericErr)
    }
    fn secp256k1_recover_pubkey(&self, _: &[u8], _: &[u8], _: u8) -> Result<Vec<u8>, RecoverPubkeyError> {
        Err(RecoverPubkeyError::UnknownErr { error_code: 0 })
    }
    fn ed25519_verify(&self, _: &[u8], _: &[u8], _: &[u8]) -> Result<bool, VerificationError> {
        Err(VerificationError::GenericErr)
    }
    fn ed25519_batch_verify(&self, _: &[&[u8]], _: &[&[u8]], _: &[&[u8]]) -> Result<bool, VerificationError> {
        Err(VerificationError::GenericErr)
    }
    fn debug(&self, _message: &str) {}
}

pub struct NoQuerier;
impl Querier for NoQuerier {
    fn raw_query(&self, _bin_request: &[u8]) -> QuerierResult {
        let _: Option<ContractResult<Binary>> = None;
        SystemResult::Err(SystemError::Unknown {})
    }
}
