//! What the monitors observe after every step: query answers (parsed as JSON values) and the
//! simulator's ledgers. Nothing here reads contract internals.
use crate::scenario::Sc;
use crate::world::*;
use serde_json::{json, Value};

#[derive(Clone, Debug, PartialEq)]
pub struct BatchObs {
    pub id: u64,
    pub total: u128,
    pub expected: u128,
    pub received: u128,
    pub count: u64,
    pub next_time_s: u64,
    pub status: String,
}

#[derive(Clone, Debug, PartialEq)]
pub struct QObs {
    pub seq: u64,
    pub denom: String,
    pub amount: u128,
    pub receiver: String,
    pub status: String,
}

#[derive(Clone, Debug, PartialEq)]
pub struct Obs {
    pub n: u128,
    pub l: u128,
    pub fees: u128,
    pub rewards: u128,
    pub rate: String,
    pub pending_owner: String,
    pub cfg: Value,
    pub stopped: bool,
    pub batches: Vec<BatchObs>,
    pub pending: BatchObs,
    pub queue: Vec<QObs>,
    pub reply_queue: usize,
    pub bal_s: u128,
    pub bal_t: u128,
    pub supply_t: u128,
    pub errors: Vec<String>,
    pub state_ok: bool,
}

pub fn batch_of(v: &Value) -> BatchObs {
    BatchObs {
        id: vu64(v, "id"),
        total: vu128(v, "batch_total_liquid_stake"),
        expected: vu128(v, "expected_native_unstaked"),
        received: vu128(v, "received_native_unstaked"),
        count: vu64(v, "unstake_request_count"),
        next_time_s: vu64(v, "next_batch_action_time") / 1_000_000_000,
        status: vs(v, "status"),
    }
}

pub fn queue_of(v: &Value) -> Vec<QObs> {
    v.get("ibc_queue")
        .and_then(|x| x.as_array())
        .map(|a| {
            a.iter()
                .map(|p| {
                    let status = match p.get("status") {
                        Some(Value::String(s)) => s.clone(),
                        Some(o) => o.to_string(),
                        None => String::new(),
                    };
                    QObs {
                        seq: vu64(p, "sequence"),
                        denom: p.get("amount").map(|c| vs(c, "denom")).unwrap_or_default(),
                        amount: p.get("amount").map(|c| vu128(c, "amount")).unwrap_or(0),
                        receiver: vs(p, "receiver"),
                        status,
                    }
                })
                .collect()
        })
        .unwrap_or_default()
}

impl Obs {
    pub fn take(sc: &Sc) -> Obs {
        let mut errors = vec![];
        let mut get = |m: Value| -> Value {
            match sc.qy(m.clone()) {
                Ok(v) => v,
                Err(e) => {
                    errors.push(format!("{m}: {e}"));
                    Value::Null
                }
            }
        };
        let st = get(json!({"state":{}}));
        let state_ok = !st.is_null();
        let cfg = get(json!({"config":{}}));
        let bs = get(json!({"batches":{}}));
        let pb = get(json!({"pending_batch":{}}));
        let qu = get(json!({"ibc_queue":{}}));
        let rq = get(json!({"ibc_reply_queue":{}}));
        let batches: Vec<BatchObs> = bs.get("batches").and_then(|x| x.as_array()).map(|a| a.iter().map(batch_of).collect()).unwrap_or_default();
        Obs {
            n: vu128(&st, "total_native_token"),
            l: vu128(&st, "total_liquid_stake_token"),
            fees: vu128(&st, "total_fees"),
            rewards: vu128(&st, "total_reward_amount"),
            rate: vs(&st, "rate"),
            pending_owner: vs(&st, "pending_owner"),
            stopped: cfg.get("stopped").and_then(|x| x.as_bool()).unwrap_or(false),
            cfg,
            batches,
            pending: batch_of(&pb),
            queue: queue_of(&qu),
            reply_queue: rq.get("ibc_queue").and_then(|x| x.as_array()).map(|a| a.len()).unwrap_or(0),
            bal_s: sc.w.bal(&sc.q, &sc.s),
            bal_t: sc.w.bal(&sc.q, &sc.t),
            supply_t: sc.w.supply_of(&sc.t),
            errors,
            state_ok,
        }
    }

    pub fn cfg_str(&self, section: &str, key: &str) -> String {
        self.cfg.get(section).map(|s| vs(s, key)).unwrap_or_default()
    }
    pub fn staker(&self) -> String {
        self.cfg_str("native_chain_config", "staker_address")
    }
    pub fn monitors(&self) -> Vec<String> {
        self.cfg.get("monitors").and_then(|x| x.as_array()).map(|a| a.iter().map(|x| x.as_str().unwrap_or("").to_string()).collect()).unwrap_or_default()
    }
    pub fn collector(&self) -> String {
        self.cfg_str("native_chain_config", "reward_collector_address")
    }
    pub fn treasury(&self) -> Option<String> {
        self.cfg.get("protocol_fee_config").and_then(|s| s.get("treasury_address")).and_then(|x| x.as_str()).map(|s| s.to_string())
    }
    pub fn oracle(&self) -> Option<String> {
        self.cfg.get("protocol_chain_config").and_then(|s| s.get("oracle_address")).and_then(|x| x.as_str()).map(|s| s.to_string())
    }
    pub fn fee_rate(&self) -> u128 {
        self.cfg.get("protocol_fee_config").map(|s| vu128(s, "dao_treasury_fee")).unwrap_or(0)
    }
    pub fn min_stake(&self) -> u128 {
        self.cfg.get("protocol_chain_config").map(|s| vu128(s, "minimum_liquid_stake_amount")).unwrap_or(0)
    }
    pub fn native_prefix(&self) -> String {
        self.cfg_str("native_chain_config", "account_address_prefix")
    }
    pub fn channel(&self) -> String {
        self.cfg_str("protocol_chain_config", "ibc_channel_id")
    }
    pub fn batch_period(&self) -> u64 {
        vu64(&self.cfg, "batch_period")
    }
    pub fn unbonding(&self) -> u64 {
        self.cfg.get("native_chain_config").map(|s| vu64(s, "unbonding_period")).unwrap_or(0)
    }
}
