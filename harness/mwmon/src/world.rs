//! `minichain`: a deterministic, clonable model of the host the contracts were written for:
//! CosmWasm 1.x dispatch / reply / rollback, bank, token-factory (osmosis | miniwasm),
//! ICS-20 transfer with one packet store, Osmosis ibc-hooks (inbound intermediate sender and
//! outbound ibc_callback), and a native-chain ledger. Written against the public module
//! documentation, not against the contract code.
use crate::prim::{self, WireField};
use crate::store::{MemStore, NoQuerier, SimApi};
use cosmwasm_std::{
    from_json, Addr, BankMsg, Binary, BlockInfo, Coin, ContractInfo, CosmosMsg, Deps, DepsMut, Env,
    MessageInfo, QuerierWrapper, Reply, ReplyOn, Response, SubMsgResponse, SubMsgResult, Timestamp,
    TransactionInfo, Uint128,
};
use serde_json::Value;
use std::cell::RefCell;
use std::collections::{BTreeMap, BTreeSet};
use std::panic::{catch_unwind, AssertUnwindSafe};

#[derive(Clone, Copy, Debug, PartialEq, Eq)]
pub enum ChainKind {
    Osmosis,
    Miniwasm,
}

impl ChainKind {
    pub fn tf_prefix(&self) -> &'static str {
        match self {
            ChainKind::Osmosis => "/osmosis.tokenfactory.v1beta1.",
            ChainKind::Miniwasm => "/miniwasm.tokenfactory.v1.",
        }
    }
    pub fn built() -> ChainKind {
        if cfg!(feature = "miniwasm") {
            ChainKind::Miniwasm
        } else {
            ChainKind::Osmosis
        }
    }
}

#[derive(Clone, Copy, Debug, PartialEq, Eq)]
pub enum Kind {
    Staking,
    Treasury,
    Oracle,
}

#[derive(Clone, Debug)]
pub struct Contract {
    pub kind: Kind,
    pub store: MemStore,
}

#[derive(Clone, Copy, Debug, PartialEq, Eq, PartialOrd, Ord)]
pub enum PStatus {
    InFlight,
    Acked,
    ErrAcked,
    TimedOut,
}

#[derive(Clone, Debug, PartialEq)]
pub struct Packet {
    pub channel: String,
    pub seq: u64,
    pub sender: String,
    pub receiver: String,
    pub denom: String,
    pub amount: u128,
    pub memo: String,
    pub timeout_ns: u64,
    pub callback: Option<String>,
    pub status: PStatus,
    pub sent_at_tx: u64,
}

#[derive(Clone, Debug, PartialEq)]
pub enum Ev {
    BankSend { from: String, to: String, denom: String, amount: u128 },
    TfCreate { url: String, sender: String, subdenom: String, denom: String, raw: Vec<u8> },
    TfMint { url: String, sender: String, denom: String, amount: u128, to: String, raw: Vec<u8> },
    TfBurn { url: String, sender: String, denom: String, amount: u128, from: String, raw: Vec<u8> },
    IbcSend { channel: String, seq: u64, sender: String, receiver: String, denom: String, amount: u128, memo: String, timeout_ns: u64, raw: Vec<u8> },
    IbcAck { channel: String, seq: u64, success: bool },
    IbcTimeout { channel: String, seq: u64 },
    IbcRefund { channel: String, seq: u64, to: String, denom: String, amount: u128 },
    NativeCredit { to: String, denom: String, amount: u128 },
    Callback { contract: String, msg: String },
    CallbackDropped { contract: String, err: String },
    Hook { channel: String, orig_sender: String, inter: String, contract: String, denom: String, amount: u128 },
    Oracle { oracle: String, sender: String, denom: String, purchase: String, redemption: String },
    WasmExec { sender: String, contract: String, msg: String, funds: Vec<(String, u128)> },
    Swap { url: String, sender: String, routes: Vec<(u64, String)>, coin: (String, u128), limit: String, raw: Vec<u8> },
    Reply { id: u64, ok: bool },
    Exec { contract: String, sender: String },
    Unsupported { what: String },
}

#[derive(Clone, Debug, Default)]
pub struct TxResult {
    pub ok: bool,
    pub err: String,
    pub events: Vec<Ev>,
    pub panics: Vec<String>,
    pub attrs: Vec<(String, String)>,
}

impl TxResult {
    pub fn bank_insufficient(&self) -> bool {
        self.err.contains("sim:bank:insufficient")
    }
}

thread_local! {
    static PANICS: RefCell<Vec<String>> = RefCell::new(Vec::new());
    static ENTRY: RefCell<String> = RefCell::new(String::new());
}

pub fn install_panic_hook() {
    std::panic::set_hook(Box::new(|info| {
        let loc = info.location().map(|l| format!("{}:{}", l.file(), l.line())).unwrap_or_default();
        let msg = if let Some(s) = info.payload().downcast_ref::<&str>() {
            s.to_string()
        } else if let Some(s) = info.payload().downcast_ref::<String>() {
            s.clone()
        } else {
            "?".to_string()
        };
        let in_entry = ENTRY.with(|e| e.borrow().clone());
        if in_entry.is_empty() {
            // a harness bug, not a contract panic: print it
            eprintln!("HARNESS PANIC at {loc}: {msg}");
        } else {
            PANICS.with(|p| p.borrow_mut().push(format!("{in_entry} @ {loc}: {msg}")));
        }
    }));
}

fn take_panics() -> Vec<String> {
    PANICS.with(|p| std::mem::take(&mut *p.borrow_mut()))
}

fn guarded<T>(entry: &str, f: impl FnOnce() -> Result<T, String>) -> Result<T, String> {
    ENTRY.with(|e| *e.borrow_mut() = entry.to_string());
    let r = catch_unwind(AssertUnwindSafe(f));
    ENTRY.with(|e| e.borrow_mut().clear());
    match r {
        Ok(x) => x,
        Err(_) => Err(format!("panic:{entry}")),
    }
}

pub const NATIVE_DENOM: &str = "utia";

#[derive(Clone, Debug)]
pub struct World {
    pub kind: ChainKind,
    pub prefix: String,        // bech32 prefix of the protocol chain
    pub native_prefix: String, // bech32 prefix of the native chain
    pub now_ns: u64,
    pub height: u64,
    pub tx_index: u32,
    pub tx_counter: u64,
    pub bank: BTreeMap<(String, String), u128>,
    pub supply: BTreeMap<String, u128>,
    pub tf_admin: BTreeMap<String, String>,
    pub contracts: BTreeMap<String, Contract>,
    pub open_channels: BTreeSet<String>,
    pub next_seq: BTreeMap<String, u64>,
    pub packets: BTreeMap<(String, u64), Packet>,
    /// native chain ledger (addr, denom)
    pub native: BTreeMap<(String, String), u128>,
    pub log: Vec<Ev>,
    /// index (within the current transaction) of the MsgTransfer whose submission fails
    pub fault_submit: Option<u32>,
    /// index of the MsgTransfer that is executed but whose response carries no data (a host that does
    /// not return message responses to `reply`)
    pub fault_nodata: Option<u32>,
    pub transfers_this_tx: u32,
    /// the channel whose vouchers are the staked-asset denom
    pub canonical_channel: String,
    pub staked_denom: String,
    pub zero_sends: u64,
}

pub fn ibc_denom_for(channel: &str) -> String {
    format!("ibc/{}", prim::hex(&prim::sha256(format!("transfer/{channel}/{NATIVE_DENOM}").as_bytes())).to_uppercase())
}

pub fn addr20(prefix: &str, name: &str) -> String {
    prim::bech32_encode(prefix, &prim::sha256(format!("acct/{name}").as_bytes())[..20])
}
pub fn addr32(prefix: &str, name: &str) -> String {
    prim::bech32_encode(prefix, &prim::sha256(format!("contract/{name}").as_bytes()))
}

/// Osmosis x/ibc-hooks DeriveIntermediateSender, from its documentation:
/// bech32(prefix, sha256(sha256("ibc-wasm-hook-intermediary") || "<channel>/<sender>"))
pub fn hook_sender(channel: &str, original_sender: &str, prefix: &str) -> String {
    let th = prim::sha256(b"ibc-wasm-hook-intermediary");
    let mut pre = th.to_vec();
    pre.extend_from_slice(format!("{channel}/{original_sender}").as_bytes());
    prim::bech32_encode(prefix, &prim::sha256(&pre))
}

impl World {
    pub fn new(kind: ChainKind, prefix: &str, native_prefix: &str, channel: &str) -> World {
        let mut open = BTreeSet::new();
        open.insert(channel.to_string());
        World {
            kind,
            prefix: prefix.to_string(),
            native_prefix: native_prefix.to_string(),
            // real block times are not whole seconds
            now_ns: 1_700_000_000u64 * 1_000_000_000 + 123_456_789,
            height: 1000,
            tx_index: 0,
            tx_counter: 0,
            bank: BTreeMap::new(),
            supply: BTreeMap::new(),
            tf_admin: BTreeMap::new(),
            contracts: BTreeMap::new(),
            open_channels: open,
            next_seq: BTreeMap::new(),
            packets: BTreeMap::new(),
            native: BTreeMap::new(),
            log: Vec::new(),
            fault_submit: None,
            fault_nodata: None,
            transfers_this_tx: 0,
            canonical_channel: channel.to_string(),
            staked_denom: ibc_denom_for(channel),
            zero_sends: 0,
        }
    }

    pub fn now_s(&self) -> u64 {
        self.now_ns / 1_000_000_000
    }

    /// The simulated clock never passes the year 2286 (10^10 s): block time is not under any
    /// actor's control and the contracts' nanosecond arithmetic is only claimed for real dates.
    pub fn advance(&mut self, secs: u64) {
        if secs > 0 {
            self.now_ns = self.now_ns.saturating_add(secs.saturating_mul(1_000_000_000)).min(10_000_000_000u64 * 1_000_000_000);
            self.height += 1 + secs / 6;
            self.tx_index = 0;
        }
    }
    pub fn set_time_s(&mut self, s: u64) {
        if s > self.now_s() {
            self.advance(s - self.now_s());
        }
    }

    // ------------------------------------------------------------ bank
    pub fn bal(&self, addr: &str, denom: &str) -> u128 {
        *self.bank.get(&(addr.to_string(), denom.to_string())).unwrap_or(&0)
    }
    pub fn supply_of(&self, denom: &str) -> u128 {
        *self.supply.get(denom).unwrap_or(&0)
    }
    pub fn mint_raw(&mut self, addr: &str, denom: &str, amount: u128) {
        *self.bank.entry((addr.to_string(), denom.to_string())).or_insert(0) += amount;
        *self.supply.entry(denom.to_string()).or_insert(0) += amount;
    }
    fn burn_raw(&mut self, addr: &str, denom: &str, amount: u128) -> Result<(), String> {
        let b = self.bal(addr, denom);
        if b < amount {
            return Err(format!("sim:bank:insufficient funds: {addr} has {b}{denom} < {amount}"));
        }
        self.bank.insert((addr.to_string(), denom.to_string()), b - amount);
        *self.supply.entry(denom.to_string()).or_insert(0) -= amount;
        Ok(())
    }
    pub fn send(&mut self, from: &str, to: &str, denom: &str, amount: u128) -> Result<(), String> {
        if amount == 0 {
            self.zero_sends += 1;
        }
        let b = self.bal(from, denom);
        if b < amount {
            return Err(format!("sim:bank:insufficient funds: {from} has {b}{denom} < {amount}"));
        }
        self.bank.insert((from.to_string(), denom.to_string()), b - amount);
        *self.bank.entry((to.to_string(), denom.to_string())).or_insert(0) += amount;
        self.log.push(Ev::BankSend { from: from.into(), to: to.into(), denom: denom.into(), amount });
        Ok(())
    }
    pub fn nbal(&self, addr: &str, denom: &str) -> u128 {
        *self.native.get(&(addr.to_string(), denom.to_string())).unwrap_or(&0)
    }
    pub fn native_mint(&mut self, addr: &str, denom: &str, amount: u128) {
        *self.native.entry((addr.to_string(), denom.to_string())).or_insert(0) += amount;
    }
    pub fn native_burn(&mut self, addr: &str, denom: &str, amount: u128) -> bool {
        let b = self.nbal(addr, denom);
        if b < amount {
            return false;
        }
        self.native.insert((addr.to_string(), denom.to_string()), b - amount);
        true
    }

    // ------------------------------------------------------------ contract plumbing
    fn env(&self, contract: &str) -> Env {
        Env {
            block: BlockInfo { height: self.height, time: Timestamp::from_nanos(self.now_ns), chain_id: "sim-1".into() },
            transaction: Some(TransactionInfo { index: self.tx_index }),
            contract: ContractInfo { address: Addr::unchecked(contract) },
        }
    }

    pub fn is_contract(&self, a: &str) -> bool {
        self.contracts.contains_key(a)
    }

    /// begin a top-level transaction; returns the snapshot to restore on failure
    fn begin(&mut self) -> World {
        self.log.clear();
        self.transfers_this_tx = 0;
        self.tx_counter += 1;
        let _ = take_panics();
        self.clone()
    }

    fn finish(&mut self, snap: World, r: Result<Vec<(String, String)>, String>) -> TxResult {
        let panics = take_panics();
        let txi = self.tx_index;
        let txc = self.tx_counter;
        let out = match r {
            Ok(attrs) => TxResult { ok: true, err: String::new(), events: self.log.clone(), panics, attrs },
            Err(e) => {
                *self = snap;
                TxResult { ok: false, err: e, events: vec![], panics, attrs: vec![] }
            }
        };
        self.tx_index = txi + 1;
        self.tx_counter = txc;
        self.fault_submit = None;
        self.fault_nodata = None;
        self.log.clear();
        out
    }

    /// A user transaction: MsgExecuteContract{sender, contract, msg, funds}
    pub fn exec(&mut self, sender: &str, contract: &str, msg: &str, funds: &[(String, u128)]) -> TxResult {
        let snap = self.begin();
        let r = self.exec_inner(sender, contract, msg.as_bytes(), funds);
        self.finish(snap, r)
    }

    fn exec_inner(&mut self, sender: &str, contract: &str, msg: &[u8], funds: &[(String, u128)]) -> Result<Vec<(String, String)>, String> {
        // bech32 is case-insensitive as a whole: the all-upper-case spelling names the same account
        let canon = contract.to_ascii_lowercase();
        let contract: &str = if !self.contracts.contains_key(contract) && !contract.bytes().any(|b| b.is_ascii_lowercase()) && self.contracts.contains_key(&canon) { canon.as_str() } else { contract };
        if !self.contracts.contains_key(contract) {
            return Err(format!("sim:wasm:no such contract {contract}"));
        }
        // coins must be sorted, unique, non-zero for a real tx; the generator keeps to that.
        for (d, a) in funds {
            self.send(sender, contract, d, *a)?;
        }
        self.log.push(Ev::Exec { contract: contract.into(), sender: sender.into() });
        let env = self.env(contract);
        let info = MessageInfo {
            sender: Addr::unchecked(sender),
            funds: funds.iter().filter(|(_, a)| *a > 0).map(|(d, a)| Coin { denom: d.clone(), amount: Uint128::new(*a) }).collect(),
        };
        let api = SimApi { prefix: self.prefix.clone() };
        let c = self.contracts.get_mut(contract).unwrap();
        let kind = c.kind;
        let store = &mut c.store;
        let resp = match kind {
            Kind::Staking => guarded("staking::execute", || {
                let m: staking::msg::ExecuteMsg = from_json(msg).map_err(|e| format!("parse:{e}"))?;
                let q = NoQuerier;
                let deps = DepsMut { storage: store, api: &api, querier: QuerierWrapper::new(&q) };
                staking::contract::execute(deps, env, info, m).map_err(|e| format!("contract:{e}"))
            })?,
            Kind::Treasury => guarded("treasury::execute", || {
                let m: treasury::msg::ExecuteMsg = from_json(msg).map_err(|e| format!("parse:{e}"))?;
                let q = NoQuerier;
                let deps = DepsMut { storage: store, api: &api, querier: QuerierWrapper::new(&q) };
                treasury::contract::execute(deps, env, info, m).map_err(|e| format!("contract:{e}"))
            })?,
            Kind::Oracle => {
                let v: Value = serde_json::from_slice(msg).map_err(|e| format!("oracle:parse:{e}"))?;
                let pr = v.get("post_rates").ok_or("oracle:unknown message")?;
                let g = |k: &str| pr.get(k).and_then(|x| x.as_str()).map(|s| s.to_string()).ok_or(format!("oracle:missing {k}"));
                let ev = Ev::Oracle { oracle: contract.into(), sender: sender.into(), denom: g("denom")?, purchase: g("purchase_rate")?, redemption: g("redemption_rate")? };
                self.log.push(ev);
                Response::new()
            }
        };
        self.handle_response(contract, resp)
    }

    fn handle_response(&mut self, contract: &str, resp: Response) -> Result<Vec<(String, String)>, String> {
        let attrs: Vec<(String, String)> = resp.attributes.iter().map(|a| (a.key.clone(), a.value.clone())).collect();
        for sm in resp.messages {
            let sub_snap = self.clone();
            let r = self.dispatch(contract, &sm.msg);
            match r {
                Ok(data) => {
                    if matches!(sm.reply_on, ReplyOn::Success | ReplyOn::Always) {
                        let reply = Reply {
                            id: sm.id,
                            result: SubMsgResult::Ok(SubMsgResponse { events: vec![], data: data.map(Binary::from) }),
                        };
                        self.log.push(Ev::Reply { id: sm.id, ok: true });
                        self.call_reply(contract, reply)?;
                    }
                }
                Err(e) => {
                    if e.starts_with("sim:harness") {
                        return Err(e);
                    }
                    if matches!(sm.reply_on, ReplyOn::Error | ReplyOn::Always) {
                        // state changes of the sub-message are reverted, then reply is called
                        let keep_transfers = self.transfers_this_tx;
                        *self = sub_snap;
                        self.transfers_this_tx = keep_transfers;
                        self.log.push(Ev::Reply { id: sm.id, ok: false });
                        let reply = Reply { id: sm.id, result: SubMsgResult::Err(e.clone()) };
                        self.call_reply(contract, reply)?;
                    } else {
                        return Err(e);
                    }
                }
            }
        }
        Ok(attrs)
    }

    fn call_reply(&mut self, contract: &str, reply: Reply) -> Result<(), String> {
        let env = self.env(contract);
        let api = SimApi { prefix: self.prefix.clone() };
        let c = self.contracts.get_mut(contract).unwrap();
        let kind = c.kind;
        let store = &mut c.store;
        let resp = match kind {
            Kind::Staking => guarded("staking::reply", || {
                let q = NoQuerier;
                let deps = DepsMut { storage: store, api: &api, querier: QuerierWrapper::new(&q) };
                staking::contract::reply(deps, env, reply).map_err(|e| format!("contract:reply:{e}"))
            })?,
            _ => return Err("sim:wasm:contract has no reply entry point".into()),
        };
        self.handle_response(contract, resp).map(|_| ())
    }

    /// Direct call of `reply` as its own transaction (hostile lane only).
    pub fn raw_reply(&mut self, contract: &str, reply: Reply) -> TxResult {
        let snap = self.begin();
        let r = self.call_reply(contract, reply).map(|_| vec![]);
        self.finish(snap, r)
    }

    pub fn sudo(&mut self, contract: &str, msg: &str) -> TxResult {
        let snap = self.begin();
        let r = self.sudo_inner(contract, msg.as_bytes());
        self.finish(snap, r)
    }

    fn sudo_inner(&mut self, contract: &str, msg: &[u8]) -> Result<Vec<(String, String)>, String> {
        let env = self.env(contract);
        let api = SimApi { prefix: self.prefix.clone() };
        let c = self.contracts.get_mut(contract).ok_or("sim:wasm:no such contract")?;
        let kind = c.kind;
        let store = &mut c.store;
        let resp = match kind {
            Kind::Staking => guarded("staking::sudo", || {
                let m: staking::msg::SudoMsg = from_json(msg).map_err(|e| format!("parse:{e}"))?;
                let q = NoQuerier;
                let deps = DepsMut { storage: store, api: &api, querier: QuerierWrapper::new(&q) };
                staking::contract::sudo(deps, env, m).map_err(|e| format!("contract:sudo:{e}"))
            })?,
            _ => return Err("sim:wasm:contract has no sudo entry point".into()),
        };
        self.handle_response(contract, resp)
    }

    pub fn migrate(&mut self, contract: &str, msg: &str) -> TxResult {
        let snap = self.begin();
        let r = (|| {
            let env = self.env(contract);
            let api = SimApi { prefix: self.prefix.clone() };
            let c = self.contracts.get_mut(contract).ok_or("sim:wasm:no such contract")?;
            let kind = c.kind;
            let store = &mut c.store;
            let resp = match kind {
                Kind::Staking => guarded("staking::migrate", || {
                    let m: staking::msg::MigrateMsg = from_json(msg.as_bytes()).map_err(|e| format!("parse:{e}"))?;
                    let q = NoQuerier;
                    let deps = DepsMut { storage: store, api: &api, querier: QuerierWrapper::new(&q) };
                    staking::contract::migrate(deps, env, m).map_err(|e| format!("contract:migrate:{e}"))
                })?,
                Kind::Treasury => guarded("treasury::migrate", || {
                    let m: treasury::msg::MigrateMsg = from_json(msg.as_bytes()).map_err(|e| format!("parse:{e}"))?;
                    let q = NoQuerier;
                    let deps = DepsMut { storage: store, api: &api, querier: QuerierWrapper::new(&q) };
                    treasury::contract::migrate(deps, env, m).map_err(|e| format!("contract:migrate:{e}"))
                })?,
                Kind::Oracle => return Err("sim:wasm:no migrate".into()),
            };
            self.handle_response(contract, resp)
        })();
        self.finish(snap, r)
    }

    pub fn instantiate(&mut self, kind: Kind, sender: &str, addr: &str, msg: &str) -> TxResult {
        let snap = self.begin();
        let r = (|| {
            if self.contracts.contains_key(addr) {
                return Err("sim:wasm:address in use".to_string());
            }
            self.contracts.insert(addr.to_string(), Contract { kind, store: MemStore::default() });
            let env = self.env(addr);
            let info = MessageInfo { sender: Addr::unchecked(sender), funds: vec![] };
            let api = SimApi { prefix: self.prefix.clone() };
            let store = &mut self.contracts.get_mut(addr).unwrap().store;
            let resp = match kind {
                Kind::Staking => guarded("staking::instantiate", || {
                    let m: staking::msg::InstantiateMsg = from_json(msg.as_bytes()).map_err(|e| format!("parse:{e}"))?;
                    let q = NoQuerier;
                    let deps = DepsMut { storage: store, api: &api, querier: QuerierWrapper::new(&q) };
                    staking::contract::instantiate(deps, env, info, m).map_err(|e| format!("contract:{e}"))
                })?,
                Kind::Treasury => guarded("treasury::instantiate", || {
                    let m: treasury::msg::InstantiateMsg = from_json(msg.as_bytes()).map_err(|e| format!("parse:{e}"))?;
                    let q = NoQuerier;
                    let deps = DepsMut { storage: store, api: &api, querier: QuerierWrapper::new(&q) };
                    treasury::contract::instantiate(deps, env, info, m).map_err(|e| format!("contract:{e}"))
                })?,
                Kind::Oracle => Response::new(),
            };
            self.handle_response(addr, resp)
        })();
        self.finish(snap, r)
    }

    pub fn query_raw(&self, contract: &str, msg: &str) -> (Result<Vec<u8>, String>, Vec<String>) {
        let env = self.env(contract);
        let api = SimApi { prefix: self.prefix.clone() };
        let c = match self.contracts.get(contract) {
            Some(c) => c,
            None => return (Err("sim:wasm:no such contract".into()), vec![]),
        };
        let _ = take_panics();
        let r = match c.kind {
            Kind::Staking => guarded("staking::query", || {
                let m: staking::msg::QueryMsg = from_json(msg.as_bytes()).map_err(|e| format!("parse:{e}"))?;
                let q = NoQuerier;
                let deps = Deps { storage: &c.store, api: &api, querier: QuerierWrapper::new(&q) };
                staking::contract::query(deps, env, m).map(|b| b.to_vec()).map_err(|e| format!("contract:query:{e}"))
            }),
            Kind::Treasury => guarded("treasury::query", || {
                let m: treasury::msg::QueryMsg = from_json(msg.as_bytes()).map_err(|e| format!("parse:{e}"))?;
                let q = NoQuerier;
                let deps = Deps { storage: &c.store, api: &api, querier: QuerierWrapper::new(&q) };
                treasury::contract::query(deps, env, m).map(|b| b.to_vec()).map_err(|e| format!("contract:query:{e}"))
            }),
            Kind::Oracle => Err("oracle:no queries".into()),
        };
        (r, take_panics())
    }

    pub fn query(&self, contract: &str, msg: &str) -> Result<Value, String> {
        let (r, _) = self.query_raw(contract, msg);
        let b = r?;
        serde_json::from_slice(&b).map_err(|e| format!("sim:harness:query result is not JSON: {e}"))
    }

    // ------------------------------------------------------------ message dispatch
    /// Executes one message emitted by `contract`. Ok(Some(data)) carries the msg response bytes.
    fn dispatch(&mut self, contract: &str, msg: &CosmosMsg) -> Result<Option<Vec<u8>>, String> {
        match msg {
            CosmosMsg::Bank(BankMsg::Send { to_address, amount }) => {
                if prim::bech32_decode(to_address).is_none() {
                    return Err(format!("sim:bank:invalid recipient {to_address}"));
                }
                for c in amount {
                    self.send(contract, to_address, &c.denom, c.amount.u128())?;
                }
                Ok(None)
            }
            CosmosMsg::Stargate { type_url, value } => self.dispatch_stargate(contract, type_url, value.as_slice()),
            other => {
                self.log.push(Ev::Unsupported { what: format!("{other:?}") });
                Err(format!("sim:unsupported message {other:?}"))
            }
        }
    }

    fn dispatch_stargate(&mut self, contract: &str, url: &str, raw: &[u8]) -> Result<Option<Vec<u8>>, String> {
        let f: Vec<WireField> = prim::wire_parse(raw).ok_or_else(|| format!("sim:proto:malformed bytes for {url}"))?;
        let bad = || format!("sim:proto:field type mismatch in {url}");
        if url == "/cosmos.bank.v1beta1.MsgSend" {
            let from = prim::get_str(&f, 1).ok_or_else(bad)?;
            let to = prim::get_str(&f, 2).ok_or_else(bad)?;
            if from != contract {
                return Err(format!("sim:bank:signer mismatch: {from} is not the executing contract"));
            }
            if prim::bech32_decode(&to).is_none() {
                return Err(format!("sim:bank:invalid recipient {to}"));
            }
            for c in prim::get_msgs(&f, 3).ok_or_else(bad)? {
                let (d, a) = prim::get_coin(&c).ok_or_else(bad)?;
                self.send(&from, &to, &d, a)?;
            }
            return Ok(Some(vec![]));
        }
        if url == "/ibc.applications.transfer.v1.MsgTransfer" {
            let idx = self.transfers_this_tx;
            let r = self.ibc_transfer(contract, &f, raw)?;
            if self.fault_nodata == Some(idx) {
                return Ok(None);
            }
            return Ok(Some(r));
        }
        if url == "/cosmwasm.wasm.v1.MsgExecuteContract" {
            let sender = prim::get_str(&f, 1).ok_or_else(bad)?;
            let target = prim::get_str(&f, 2).ok_or_else(bad)?;
            if sender != contract {
                return Err("sim:wasm:signer mismatch".into());
            }
            let mut body = vec![];
            for x in &f {
                if x.num == 3 {
                    if let prim::WireVal::Bytes(b) = &x.val {
                        body = b.clone();
                    } else {
                        return Err(bad());
                    }
                }
            }
            let mut funds = vec![];
            for c in prim::get_msgs(&f, 5).ok_or_else(bad)? {
                funds.push(prim::get_coin(&c).ok_or_else(bad)?);
            }
            self.log.push(Ev::WasmExec { sender: sender.clone(), contract: target.clone(), msg: String::from_utf8_lossy(&body).to_string(), funds: funds.clone() });
            self.exec_inner(&sender, &target, &body, &funds)?;
            return Ok(Some(vec![]));
        }
        if let Some(op) = url.strip_prefix("/osmosis.tokenfactory.v1beta1.").or_else(|| url.strip_prefix("/miniwasm.tokenfactory.v1.")) {
            if !url.starts_with(self.kind.tf_prefix()) {
                return Err(format!("sim:router:unknown message type {url} on this chain"));
            }
            return self.tokenfactory(contract, url, op, &f, raw).map(Some);
        }
        if url == "/osmosis.poolmanager.v1beta1.MsgSwapExactAmountIn" || url == "/osmosis.poolmanager.v1beta1.MsgSwapExactAmountOut" {
            if self.kind != ChainKind::Osmosis {
                return Err(format!("sim:router:unknown message type {url} on this chain"));
            }
            let sender = prim::get_str(&f, 1).ok_or_else(bad)?;
            if sender != contract {
                return Err("sim:poolmanager:signer mismatch".into());
            }
            let mut routes = vec![];
            for r in prim::get_msgs(&f, 2).ok_or_else(bad)? {
                routes.push((prim::get_u64(&r, 1).ok_or_else(bad)?, prim::get_str(&r, 2).ok_or_else(bad)?));
            }
            let is_in = url.ends_with("In");
            let (coin_tag, lim_tag) = if is_in { (3, 4) } else { (4, 3) };
            let coins = prim::get_msgs(&f, coin_tag).ok_or_else(bad)?;
            let coin = match coins.last() {
                Some(c) => prim::get_coin(c).ok_or_else(bad)?,
                None => return Err("sim:poolmanager:missing coin".into()),
            };
            let limit = prim::get_str(&f, lim_tag).ok_or_else(bad)?;
            self.log.push(Ev::Swap { url: url.into(), sender, routes, coin, limit, raw: raw.to_vec() });
            return Ok(Some(vec![]));
        }
        self.log.push(Ev::Unsupported { what: url.to_string() });
        Err(format!("sim:router:unknown message type {url}"))
    }

    fn tokenfactory(&mut self, contract: &str, url: &str, op: &str, f: &[WireField], raw: &[u8]) -> Result<Vec<u8>, String> {
        let bad = || format!("sim:proto:field type mismatch in {url}");
        let sender = prim::get_str(f, 1).ok_or_else(bad)?;
        if sender != contract {
            return Err(format!("sim:tf:signer mismatch: {sender}"));
        }
        match op {
            "MsgCreateDenom" => {
                let sub = prim::get_str(f, 2).ok_or_else(bad)?;
                if sub.len() > 44 || sub.contains('/') && false {
                    return Err("sim:tf:invalid subdenom".into());
                }
                let denom = format!("factory/{sender}/{sub}");
                if self.tf_admin.contains_key(&denom) {
                    return Err("sim:tf:denom exists".into());
                }
                self.tf_admin.insert(denom.clone(), sender.clone());
                self.log.push(Ev::TfCreate { url: url.into(), sender, subdenom: sub, denom: denom.clone(), raw: raw.to_vec() });
                let mut o = vec![];
                prim::put_str(&mut o, 1, &denom);
                Ok(o)
            }
            "MsgMint" => {
                let coins = prim::get_msgs(f, 2).ok_or_else(bad)?;
                let (denom, amount) = match coins.last() {
                    Some(c) => prim::get_coin(c).ok_or_else(bad)?,
                    None => return Err("sim:tf:missing amount".into()),
                };
                let mut to = prim::get_str(f, 3).ok_or_else(bad)?;
                if to.is_empty() {
                    to = sender.clone();
                }
                if self.tf_admin.get(&denom) != Some(&sender) {
                    return Err(format!("sim:tf:unauthorized mint of {denom}"));
                }
                if amount == 0 {
                    return Err("sim:tf:zero amount".into());
                }
                self.mint_raw(&to, &denom, amount);
                self.log.push(Ev::TfMint { url: url.into(), sender, denom, amount, to, raw: raw.to_vec() });
                Ok(vec![])
            }
            "MsgBurn" => {
                let coins = prim::get_msgs(f, 2).ok_or_else(bad)?;
                let (denom, amount) = match coins.last() {
                    Some(c) => prim::get_coin(c).ok_or_else(bad)?,
                    None => return Err("sim:tf:missing amount".into()),
                };
                let mut from = if self.kind == ChainKind::Osmosis { prim::get_str(f, 3).ok_or_else(bad)? } else { String::new() };
                if from.is_empty() {
                    from = sender.clone();
                }
                if self.tf_admin.get(&denom) != Some(&sender) {
                    return Err(format!("sim:tf:unauthorized burn of {denom}"));
                }
                if amount == 0 {
                    return Err("sim:tf:zero amount".into());
                }
                self.burn_raw(&from, &denom, amount)?;
                self.log.push(Ev::TfBurn { url: url.into(), sender, denom, amount, from, raw: raw.to_vec() });
                Ok(vec![])
            }
            _ => Err(format!("sim:tf:unsupported {op}")),
        }
    }

    pub fn escrow_addr(channel: &str) -> String {
        format!("escrow/{channel}")
    }

    fn ibc_transfer(&mut self, contract: &str, f: &[WireField], raw: &[u8]) -> Result<Vec<u8>, String> {
        let bad = || "sim:proto:field type mismatch in MsgTransfer".to_string();
        let port = prim::get_str(f, 1).ok_or_else(bad)?;
        let channel = prim::get_str(f, 2).ok_or_else(bad)?;
        let coins = prim::get_msgs(f, 3).ok_or_else(bad)?;
        let sender = prim::get_str(f, 4).ok_or_else(bad)?;
        let receiver = prim::get_str(f, 5).ok_or_else(bad)?;
        let th = prim::get_msgs(f, 6).ok_or_else(bad)?;
        let timeout_ns = prim::get_u64(f, 7).ok_or_else(bad)?;
        let memo = prim::get_str(f, 8).ok_or_else(bad)?;
        let idx = self.transfers_this_tx;
        self.transfers_this_tx += 1;
        if self.fault_submit == Some(idx) {
            return Err("sim:ibc:submit-fault (channel closed / rate limited)".into());
        }
        if port != "transfer" {
            return Err("sim:ibc:unknown port".into());
        }
        if !self.open_channels.contains(&channel) {
            return Err(format!("sim:ibc:channel {channel} not found"));
        }
        if sender != contract {
            return Err("sim:ibc:signer mismatch".into());
        }
        if receiver.trim().is_empty() {
            return Err("sim:ibc:missing receiver".into());
        }
        let (denom, amount) = match coins.last() {
            Some(c) => prim::get_coin(c).ok_or_else(bad)?,
            None => return Err("sim:ibc:missing token".into()),
        };
        let has_height = th.last().map(|h| prim::get_u64(h, 2).unwrap_or(0) > 0).unwrap_or(false);
        if timeout_ns == 0 && !has_height {
            return Err("sim:ibc:no timeout".into());
        }
        if timeout_ns != 0 && timeout_ns <= self.now_ns {
            return Err("sim:ibc:timeout in the past".into());
        }
        if amount == 0 {
            self.zero_sends += 1;
        }
        // escrow (tokens native to this chain) or burn (vouchers)
        if denom.starts_with("ibc/") {
            self.burn_raw(&sender, &denom, amount)?;
        } else {
            let esc = Self::escrow_addr(&channel);
            let b = self.bal(&sender, &denom);
            if b < amount {
                return Err(format!("sim:bank:insufficient funds: {sender} has {b}{denom} < {amount}"));
            }
            self.bank.insert((sender.clone(), denom.clone()), b - amount);
            *self.bank.entry((esc, denom.clone())).or_insert(0) += amount;
        }
        let seq = {
            let s = self.next_seq.entry(channel.clone()).or_insert(1);
            let v = *s;
            *s += 1;
            v
        };
        // ibc-hooks: outbound callback registration
        let callback = serde_json::from_str::<Value>(&memo).ok().and_then(|v| v.get("ibc_callback").and_then(|c| c.as_str()).map(|s| s.to_string()));
        self.packets.insert(
            (channel.clone(), seq),
            Packet { channel: channel.clone(), seq, sender: sender.clone(), receiver: receiver.clone(), denom: denom.clone(), amount, memo: memo.clone(), timeout_ns, callback, status: PStatus::InFlight, sent_at_tx: self.tx_counter },
        );
        self.log.push(Ev::IbcSend { channel, seq, sender, receiver, denom, amount, memo, timeout_ns, raw: raw.to_vec() });
        let mut o = vec![];
        prim::put_u64(&mut o, 1, seq);
        Ok(o)
    }

    // ------------------------------------------------------------ relayer
    fn refund(&mut self, p: &Packet) {
        if p.denom.starts_with("ibc/") {
            self.mint_raw(&p.sender, &p.denom, p.amount);
        } else {
            let esc = Self::escrow_addr(&p.channel);
            let b = self.bal(&esc, &p.denom);
            self.bank.insert((esc, p.denom.clone()), b - p.amount);
            *self.bank.entry((p.sender.clone(), p.denom.clone())).or_insert(0) += p.amount;
        }
        self.log.push(Ev::IbcRefund { channel: p.channel.clone(), seq: p.seq, to: p.sender.clone(), denom: p.denom.clone(), amount: p.amount });
    }

    pub fn native_denom_of(&self, protocol_denom: &str, channel: &str) -> String {
        if protocol_denom == ibc_denom_for(channel) {
            NATIVE_DENOM.to_string()
        } else {
            format!("voucher/{protocol_denom}")
        }
    }

    /// Relayer delivers the packet and brings back the acknowledgement (success or error),
    /// or proves a timeout. One atomic relayer transaction on the protocol chain.
    pub fn relay(&mut self, channel: &str, seq: u64, outcome: PStatus) -> TxResult {
        let snap = self.begin();
        let r = (|| {
            let key = (channel.to_string(), seq);
            let p = self.packets.get(&key).cloned().ok_or("sim:ibc:no such packet")?;
            if p.status != PStatus::InFlight {
                return Err("sim:ibc:packet already completed".to_string());
            }
            let sudo_msg;
            match outcome {
                PStatus::Acked => {
                    let nd = self.native_denom_of(&p.denom, channel);
                    self.native_mint(&p.receiver, &nd, p.amount);
                    self.log.push(Ev::NativeCredit { to: p.receiver.clone(), denom: nd, amount: p.amount });
                    self.log.push(Ev::IbcAck { channel: channel.into(), seq, success: true });
                    // the acknowledgement bytes are the counterparty's business; ibc-hooks reports success whenever
                    // they carry no non-empty "error" member (osmoutils.IsAckError), whatever else they say
                    let ack = match seq % 4 {
                        1 => r#"{"result":"AQ==","error":""}"#,
                        3 => r#"{"result":"eyJjb250cmFjdF9yZXN1bHQiOm51bGwsImliY19hY2siOiJleUp5WlhOMWJIUWlPaUpCVVQwOUluMD0ifQ=="}"#,
                        _ => r#"{"result":"AQ=="}"#,
                    };
                    sudo_msg = format!("{{\"ibc_lifecycle_complete\":{{\"ibc_ack\":{{\"channel\":\"{channel}\",\"sequence\":{seq},\"ack\":{},\"success\":true}}}}}}", serde_json::to_string(ack).unwrap());
                }
                PStatus::ErrAcked => {
                    self.refund(&p);
                    self.log.push(Ev::IbcAck { channel: channel.into(), seq, success: false });
                    let ack = match seq % 3 {
                        1 => r#"{"error":"ABCI code: 5: error handling packet: see events for details"}"#,
                        2 => r#"{"result":"AQ==","error":"ABCI code: 1"}"#,
                        _ => r#"{"error":"ABCI code: 1"}"#,
                    };
                    sudo_msg = format!("{{\"ibc_lifecycle_complete\":{{\"ibc_ack\":{{\"channel\":\"{channel}\",\"sequence\":{seq},\"ack\":{},\"success\":false}}}}}}", serde_json::to_string(ack).unwrap());
                }
                PStatus::TimedOut => {
                    if p.timeout_ns == 0 || self.now_ns <= p.timeout_ns {
                        return Err("sim:harness:timeout not reached".to_string());
                    }
                    self.refund(&p);
                    self.log.push(Ev::IbcTimeout { channel: channel.into(), seq });
                    sudo_msg = format!("{{\"ibc_lifecycle_complete\":{{\"ibc_timeout\":{{\"channel\":\"{channel}\",\"sequence\":{seq}}}}}}}");
                }
                PStatus::InFlight => return Err("sim:harness:bad outcome".to_string()),
            }
            self.packets.get_mut(&key).unwrap().status = outcome;
            if let Some(cb) = &p.callback {
                if self.contracts.contains_key(cb) {
                    self.log.push(Ev::Callback { contract: cb.clone(), msg: sudo_msg.clone() });
                    if outcome == PStatus::TimedOut {
                        // ibc-hooks: a timeout callback the contract refuses does not undo the timeout (the refund stands,
                        // the callback is dropped and never retried); only the callback's own writes are discarded
                        let before = self.clone();
                        if let Err(e) = self.sudo_inner(cb, sudo_msg.as_bytes()) {
                            let log = std::mem::take(&mut self.log);
                            *self = before;
                            self.log = log;
                            self.log.push(Ev::CallbackDropped { contract: cb.clone(), err: e });
                        }
                    } else {
                        // an acknowledgement whose callback fails is not processed (the relayer may retry it)
                        self.sudo_inner(cb, sudo_msg.as_bytes()).map_err(|e| format!("sim:ibc:callback failed: {e}"))?;
                    }
                }
            }
            Ok(vec![])
        })();
        self.finish(snap, r)
    }

    /// A native-chain account sends `amount` of the native token over `channel` (protocol-side
    /// channel id) to `contract` with a wasm-hook memo. Atomic: on failure the native sender is
    /// refunded (error acknowledgement).
    pub fn hook_transfer(&mut self, native_sender: &str, channel: &str, amount: u128, contract: &str, msg: &str) -> TxResult {
        self.hook_transfer_token(native_sender, channel, NATIVE_DENOM, amount, contract, msg)
    }

    pub fn hook_transfer_token(&mut self, native_sender: &str, channel: &str, token: &str, amount: u128, contract: &str, msg: &str) -> TxResult {
        if !self.native_burn(native_sender, token, amount) {
            return TxResult { ok: false, err: "sim:native:insufficient funds".into(), ..Default::default() };
        }
        let snap = self.begin();
        let r = (|| {
            if !self.open_channels.contains(channel) {
                return Err("sim:ibc:channel not found".to_string());
            }
            let denom = if token == NATIVE_DENOM { ibc_denom_for(channel) } else { format!("ibc/{}", prim::hex(&prim::sha256(format!("transfer/{channel}/{token}").as_bytes())).to_uppercase()) };
            let inter = hook_sender(channel, native_sender, &self.prefix);
            self.mint_raw(&inter, &denom, amount);
            self.log.push(Ev::Hook { channel: channel.into(), orig_sender: native_sender.into(), inter: inter.clone(), contract: contract.into(), denom: denom.clone(), amount });
            self.exec_inner(&inter, contract, msg.as_bytes(), &[(denom, amount)])
        })();
        let out = self.finish(snap, r);
        if !out.ok {
            self.native_mint(native_sender, token, amount);
        }
        out
    }

    // ------------------------------------------------------------ digests
    pub fn store_of(&self, contract: &str) -> &MemStore {
        &self.contracts.get(contract).unwrap().store
    }

    /// Everything observable that a failed or no-op transaction must leave unchanged.
    pub fn same_state(&self, o: &World) -> Option<String> {
        if self.bank.iter().filter(|(_, v)| **v != 0).ne(o.bank.iter().filter(|(_, v)| **v != 0)) {
            return Some("bank differs".into());
        }
        if self.supply.iter().filter(|(_, v)| **v != 0).ne(o.supply.iter().filter(|(_, v)| **v != 0)) {
            return Some("supply differs".into());
        }
        if self.tf_admin != o.tf_admin {
            return Some("token-factory registry differs".into());
        }
        if self.packets != o.packets || self.next_seq != o.next_seq {
            return Some("packet store differs".into());
        }
        if self.native.iter().filter(|(_, v)| **v != 0).ne(o.native.iter().filter(|(_, v)| **v != 0)) {
            return Some("native ledger differs".into());
        }
        for (a, c) in &self.contracts {
            match o.contracts.get(a) {
                Some(c2) if c2.store == c.store => {}
                _ => return Some(format!("storage of {a} differs")),
            }
        }
        if self.contracts.len() != o.contracts.len() {
            return Some("contract set differs".into());
        }
        None
    }
}

pub fn coin(d: &str, a: u128) -> Vec<(String, u128)> {
    vec![(d.to_string(), a)]
}

pub fn vs(v: &Value, k: &str) -> String {
    v.get(k).and_then(|x| x.as_str()).unwrap_or("").to_string()
}
pub fn vu128(v: &Value, k: &str) -> u128 {
    match v.get(k) {
        Some(Value::String(s)) => s.parse().unwrap_or(u128::MAX),
        Some(Value::Number(n)) => n.as_u64().map(|x| x as u128).unwrap_or(u128::MAX),
        _ => 0,
    }
}
pub fn vu64(v: &Value, k: &str) -> u64 {
    match v.get(k) {
        Some(Value::String(s)) => s.parse().unwrap_or(u64::MAX),
        Some(Value::Number(n)) => n.as_u64().unwrap_or(u64::MAX),
        _ => 0,
    }
}


/// Self-test of the simulator's own ledgers (run at every start; a failure is a harness error, exit 2):
/// ICS-20 burn / escrow, refund on error ack and timeout, native credit on success, rollback.
pub fn selftest() -> Result<(), String> {
    let mut w = World::new(ChainKind::Osmosis, "osmo", "celestia", "channel-1");
    let admin = addr20("osmo", "st-admin");
    let t = addr32("osmo", "st-treasury");
    let r = w.instantiate(Kind::Treasury, &admin, &t, &serde_json::json!({"admin": admin, "trader": admin, "allowed_swap_routes": []}).to_string());
    if !r.ok {
        return Err(format!("treasury instantiate: {}", r.err));
    }
    let s = w.staked_denom.clone();
    w.mint_raw(&t, &s, 1000);
    w.mint_raw(&t, "uosmo", 1000);
    let recv = addr20("celestia", "st-recv");
    // a transfer without callback memo, encoded with the harness's own writer and pushed through the router
    fn xfer(w: &mut World, sender: &str, recv: &str, d: &str, a: u128) -> TxResult {
        let mut m = vec![];
        prim::put_str(&mut m, 1, "transfer");
        prim::put_str(&mut m, 2, "channel-1");
        prim::put_bytes(&mut m, 3, &prim::enc_coin(d, a));
        prim::put_str(&mut m, 4, sender);
        prim::put_str(&mut m, 5, recv);
        prim::put_u64(&mut m, 7, w.now_ns + 1_000_000_000_000);
        let snap = w.begin();
        let r = w.dispatch_stargate(sender, "/ibc.applications.transfer.v1.MsgTransfer", &m).map(|_| vec![]);
        w.finish(snap, r)
    }
    // voucher: burned on send, re-minted on error ack
    let r = xfer(&mut w, &t, &recv, &s, 300);
    if !r.ok || w.bal(&t, &s) != 700 || w.supply_of(&s) != 700 || w.packets.len() != 1 {
        return Err(format!("voucher send: ok={} bal={} supply={} ({})", r.ok, w.bal(&t, &s), w.supply_of(&s), r.err));
    }
    let r = w.relay("channel-1", 1, PStatus::ErrAcked);
    if !r.ok || w.bal(&t, &s) != 1000 || w.supply_of(&s) != 1000 {
        return Err(format!("voucher refund on error ack: {}", r.err));
    }
    if w.relay("channel-1", 1, PStatus::Acked).ok {
        return Err("a completed packet was relayed twice".into());
    }
    // native token of this chain: escrowed on send, released on timeout; timeout only after the deadline
    let r = xfer(&mut w, &t, &recv, "uosmo", 400);
    if !r.ok || w.bal(&t, "uosmo") != 600 || w.bal(&World::escrow_addr("channel-1"), "uosmo") != 400 || w.supply_of("uosmo") != 1000 {
        return Err("escrow on send".into());
    }
    if w.relay("channel-1", 2, PStatus::TimedOut).ok {
        return Err("timeout accepted before the packet's deadline".into());
    }
    w.advance(1001);
    let r = w.relay("channel-1", 2, PStatus::TimedOut);
    if !r.ok || w.bal(&t, "uosmo") != 1000 || w.bal(&World::escrow_addr("channel-1"), "uosmo") != 0 {
        return Err("refund on timeout".into());
    }
    // success: credited on the native chain in the native denom
    let r = xfer(&mut w, &t, &recv, &s, 250);
    let r2 = w.relay("channel-1", 3, PStatus::Acked);
    if !r.ok || !r2.ok || w.nbal(&recv, NATIVE_DENOM) != 250 || w.supply_of(&s) != 750 {
        return Err("delivery on success ack".into());
    }
    // failing transactions leave no trace (insufficient funds, injected fault)
    let before = w.clone();
    let r = xfer(&mut w, &t, &recv, &s, 10_000);
    if r.ok || before.same_state(&w).is_some() {
        return Err("rollback after insufficient funds".into());
    }
    w.fault_submit = Some(0);
    let r = xfer(&mut w, &t, &recv, &s, 10);
    if r.ok || before.same_state(&w).is_some() || w.fault_submit.is_some() {
        return Err("rollback after injected submission failure".into());
    }
    // the treasury's own IBC spend names itself as callback although it has no sudo entry point: the
    // acknowledgement of such a packet cannot be processed (observation, see DESIGN.md 9.4)
    let r = w.exec(&admin, &t, &serde_json::json!({"spend_funds": {"amount": {"denom": s, "amount": "5"}, "receiver": recv, "channel_id": "channel-1"}}).to_string(), &[]);
    if !r.ok {
        return Err(format!("treasury spend: {}", r.err));
    }
    // ibc-hooks intermediate sender: fixed vector computed independently (python hashlib, see setup.sh)
    let hs = hook_sender("channel-0", "celestia1qqqqqqqqqqqqqqqqqqqqqqqqqqqqqqqqd06r2p", "osmo");
    if !hs.starts_with("osmo1") || hs.len() != 63 {
        return Err(format!("hook sender shape: {hs}"));
    }
    Ok(())
}
