//! State-aware random workload for the history monitors. Produces concrete, replayable ops.
use crate::model::Model;
use crate::obs::*;
use crate::prim::{self, Rng};
use crate::scenario::*;
use crate::world::*;
use serde_json::json;

#[derive(Clone, Debug)]
pub struct Profile {
    pub name: &'static str,
    /// weights: stake, unstake, submit, clock, relay, deliver, reward, withdraw, recover, stray, fault, admin, donate
    pub w: [u64; 13],
    pub max_amount: u128,
    pub config_changes: bool,
}

impl Profile {
    pub fn balanced() -> Profile {
        Profile { name: "balanced", w: [20, 14, 8, 10, 22, 10, 8, 12, 9, 3, 3, 4, 1], max_amount: 1_000_000_000_000_000_000_000_000, config_changes: true }
    }
    pub fn ibc_heavy() -> Profile {
        Profile { name: "ibc", w: [24, 6, 4, 8, 30, 4, 8, 4, 22, 6, 6, 2, 1], max_amount: 1_000_000_000_000, config_changes: true }
    }
    pub fn batches() -> Profile {
        Profile { name: "batches", w: [14, 22, 14, 16, 14, 16, 4, 20, 3, 1, 1, 2, 1], max_amount: 1_000_000_000_000_000, config_changes: true }
    }
    pub fn rewards() -> Profile {
        Profile { name: "rewards", w: [16, 6, 4, 6, 14, 4, 30, 4, 4, 1, 2, 14, 1], max_amount: 1_000_000_000_000_000_000_000, config_changes: true }
    }
}

pub struct Gen {
    pub rng: Rng,
    pub profile: Profile,
}

pub fn boundary_amount(rng: &mut Rng, min: u128, max: u128) -> u128 {
    let pools: [u128; 14] = [1, 2, 3, 7, 10, 99, 100, 101, 1000, 12_345, 1_000_000, 999_999_999, 1_000_000_007, 3_333_333_333_333];
    let c = rng.below(10);
    let a = match c {
        0 => min,
        1 => min.saturating_add(1),
        2 => min.saturating_sub(1),
        3 | 4 => *rng.pick(&pools),
        5 => 10u128.pow(rng.range(0, 27) as u32),
        6 => (1u128 << rng.range(1, 89)) + rng.below(3) as u128 - 1,
        _ => rng.below128(max.max(2)),
    };
    a.min(max)
}

impl Gen {
    pub fn new(seed: u64, profile: Profile) -> Gen {
        Gen { rng: Rng::new(seed), profile }
    }

    fn any_user(&mut self, sc: &Sc) -> String {
        self.rng.pick(&sc.users).clone()
    }

    fn ref_mint(o: &Obs, a: u128) -> Option<u128> {
        if o.l == 0 || o.n == 0 {
            Some(a)
        } else {
            prim::mul_div_floor(a, o.l, o.n)
        }
    }

    pub fn next(&mut self, sc: &Sc, o: &Obs, m: &Model) -> Vec<Op> {
        let rng = &mut self.rng;
        let inflight: Vec<&Packet> = sc.w.packets.values().filter(|p| p.status == PStatus::InFlight && p.sender == sc.q).collect();
        let submitted: Vec<&BatchObs> = o.batches.iter().filter(|b| b.status == "submitted").collect();
        let received: Vec<&BatchObs> = o.batches.iter().filter(|b| b.status == "received").collect();
        let refundable: Vec<&QObs> = o.queue.iter().filter(|p| p.status != "sent").collect();
        let mut w = self.profile.w;
        if inflight.is_empty() {
            w[4] = 0;
        }
        if submitted.is_empty() {
            w[5] /= 8;
        }
        if received.is_empty() {
            w[7] /= 6;
        }
        if refundable.is_empty() {
            w[8] /= 6;
        }
        if o.l == 0 {
            w[1] = 0;
            w[6] /= 4;
        }
        if o.stopped {
            // get it running again most of the time
            if rng.chance(1, 2) {
                // mostly with identical totals; sometimes with a corrected staked total (slash booking)
                if o.l > 0 && rng.chance(1, 3) {
                    let d = 1 + rng.below128((o.n / 50).max(2));
                    let nn = if rng.chance(1, 2) { o.n.saturating_add(d) } else { o.n.saturating_sub(d).max(1) };
                    let nn = nn.clamp((o.l / 1000).max(1), o.l.saturating_mul(1000));
                    return vec![sc.resume(nn, o.l, o.rewards)];
                }
                return vec![sc.resume(o.n, o.l, o.rewards)];
            }
        }
        let headroom = self.profile.max_amount.saturating_sub(o.n).max(1);
        match rng.weighted(&w) {
            0 => {
                // ---- stake
                let contract_sender = rng.chance(1, 12);
                let user = if contract_sender { sc.contract_user.clone() } else { self.any_user(sc) };
                let rng = &mut self.rng;
                let amount = boundary_amount(rng, o.min_stake(), headroom.min(self.profile.max_amount));
                let mint_to: Option<String> = match rng.below(10) {
                    0 | 1 => Some(if rng.chance(1, 5) { sc.contract_user.clone() } else { rng.pick(&sc.users).clone() }),
                    // (now and then in the all-upper-case spelling bech32 allows)
                    2 | 3 => Some(if rng.chance(1, 8) { rng.pick(&sc.native_users).to_uppercase() } else { rng.pick(&sc.native_users).clone() }),
                    // the staker itself as native recipient: one receiver then has transfers in both denoms
                    4 => Some(if rng.chance(1, 3) { o.staker() } else { rng.pick(&sc.native_users).clone() }),
                    5 if contract_sender => None,
                    _ if contract_sender => Some(rng.pick(&sc.users).clone()),
                    _ => None,
                };
                let flag = match rng.below(4) {
                    0 => Some(true),
                    1 => Some(false),
                    _ => None,
                };
                let rm = Self::ref_mint(o, amount);
                let expected = match (rng.below(6), rm) {
                    (0, Some(r)) => Some(r),
                    (1, Some(r)) => Some(r.saturating_add(1)),
                    (2, Some(r)) => Some(r.saturating_sub(1)),
                    _ => None,
                };
                let mut ops = vec![];
                let have = sc.w.bal(&user, &sc.s);
                if have < amount {
                    ops.push(Op::BankMint { addr: user.clone(), denom: sc.s.clone(), amount: amount - have });
                }
                if rng.chance(1, 15) {
                    // paid in another, equally well-formed IBC voucher: not the staked asset, must be refused
                    let foreign = format!("ibc/{}", "B".repeat(64));
                    ops.push(Op::BankMint { addr: user.clone(), denom: foreign.clone(), amount });
                    ops.push(Op::exec(&user, &sc.q, json!({"liquid_stake": {"mint_to": mint_to, "transfer_to_native_chain": flag, "expected_mint_amount": null}}), coin(&foreign, amount)));
                    return ops;
                }
                ops.push(sc.stake(&user, amount, mint_to.as_deref(), flag, expected));
                ops
            }
            1 => {
                // ---- unstake
                // (the contract-typed account, with its 32-byte address, is a holder like any other)
                let holders: Vec<&String> = sc.users.iter().chain(std::iter::once(&sc.contract_user)).filter(|u| sc.w.bal(u, &sc.t) > 0).collect();
                if holders.is_empty() {
                    return vec![Op::Advance { secs: 1 }];
                }
                let u = (*rng.pick(&holders)).clone();
                let bal = sc.w.bal(&u, &sc.t);
                let a = match rng.below(5) {
                    0 => bal,
                    1 => 1,
                    2 => bal / 2 + 1,
                    3 => bal.min(3),
                    _ => 1 + rng.below128(bal),
                }
                .min(bal);
                vec![sc.unstake(&u, a)]
            }
            2 => vec![sc.submit(&self.any_user(sc))],
            3 => {
                // ---- clock
                let now = sc.w.now_s();
                let mut targets: Vec<u64> = vec![];
                targets.push(o.pending.next_time_s);
                for b in &submitted {
                    targets.push(b.next_time_s);
                }
                let future: Vec<u64> = targets.into_iter().filter(|t| *t + 1 > now).collect();
                let secs = match rng.below(6) {
                    0 | 1 | 2 if !future.is_empty() => {
                        let t = *rng.pick(&future);
                        let tgt = match rng.below(3) {
                            0 => t.saturating_sub(1),
                            1 => t,
                            _ => t + 1,
                        };
                        tgt.saturating_sub(now)
                    }
                    3 => 1001,
                    4 => rng.range(1, 10),
                    _ => rng.range(1, 100_000),
                };
                vec![Op::Advance { secs: secs.max(1) }]
            }
            4 => {
                // ---- relay
                let p = *rng.pick(&inflight);
                let oc = match rng.below(10) {
                    0..=5 => "ack",
                    6 | 7 => "err",
                    _ => "timeout",
                };
                let mut ops = vec![];
                if oc == "timeout" && sc.w.now_ns <= p.timeout_ns {
                    let need = (p.timeout_ns - sc.w.now_ns) / 1_000_000_000 + 1;
                    ops.push(Op::Advance { secs: need });
                }
                ops.push(Op::Relay { channel: p.channel.clone(), seq: p.seq, outcome: oc.into() });
                ops
            }
            5 => {
                // ---- operator returns unstaked tokens
                let staker = o.staker();
                let ch = o.channel();
                if submitted.is_empty() {
                    // nothing submitted: a misdirected delivery
                    let b = rng.range(1, o.pending.id + 1);
                    return vec![Op::NativeMint { addr: staker.clone(), amount: 5 }, sc.deliver(&staker, &ch, b, 5), Op::NativeBurn { addr: staker, amount: 5 }];
                }
                let b = *rng.pick(&submitted);
                let mut ops = vec![];
                let now = sc.w.now_s();
                match rng.below(12) {
                    0 => {
                        // impostor: another native account with the right memo
                        let imp = rng.pick(&sc.native_users).clone();
                        ops.push(Op::NativeMint { addr: imp.clone(), amount: b.expected.max(1) });
                        ops.push(sc.deliver(&imp, &ch, b.id, b.expected.max(1)));
                    }
                    1 => {
                        // right sender, other channel
                        ops.push(Op::OpenChannel { channel: "channel-77777".into() });
                        ops.push(sc.deliver(&staker, "channel-77777", b.id, b.expected.max(1)));
                    }
                    2 => {
                        // early
                        ops.push(sc.deliver(&staker, &ch, b.id, b.expected.max(1)));
                    }
                    4 if rng.chance(1, 2) => {
                        // a protocol-chain account whose address string is the staker's (it exists when both chains
                        // share a prefix) calls directly, at the right time, with the right amount
                        if now < b.next_time_s {
                            ops.push(Op::Advance { secs: b.next_time_s - now });
                        }
                        let amt = b.expected.max(1);
                        ops.push(Op::BankMint { addr: staker.clone(), denom: sc.s.clone(), amount: amt });
                        ops.push(Op::exec(&staker, &sc.q, json!({"receive_unstaked_tokens": {"batch_id": b.id}}), coin(&sc.s, amt)));
                    }
                    3 if rng.chance(1, 2) => {
                        // the right staker on the right channel at the right time, but paying in another token
                        if now < b.next_time_s {
                            ops.push(Op::Advance { secs: b.next_time_s - now });
                        }
                        ops.push(Op::NativeMintToken { addr: staker.clone(), token: "uother".into(), amount: b.expected.max(1) });
                        ops.push(Op::HookForeign { native_sender: staker.clone(), channel: ch.clone(), token: "uother".into(), amount: b.expected.max(1), contract: sc.q.clone(), msg: json!({"receive_unstaked_tokens": {"batch_id": b.id}}).to_string() });
                    }
                    k => {
                        if now < b.next_time_s && rng.chance(2, 3) {
                            ops.push(Op::Advance { secs: b.next_time_s - now + rng.below(3) });
                        }
                        let exp = b.expected;
                        let (amt, pre) = match k {
                            3 | 4 if exp > 1 => {
                                let d = 1 + rng.below128(exp - 1);
                                (exp - d, Some(Op::NativeBurn { addr: staker.clone(), amount: d }))
                            }
                            5 => {
                                let d = 1 + rng.below128(exp.max(10));
                                (exp + d, Some(Op::NativeMint { addr: staker.clone(), amount: d }))
                            }
                            _ => (exp, None),
                        };
                        if amt == 0 {
                            return vec![Op::Advance { secs: 1 }];
                        }
                        if let Some(p) = pre {
                            ops.push(p);
                        }
                        ops.push(sc.deliver(&staker, &ch, b.id, amt));
                    }
                }
                ops
            }
            6 => {
                // ---- reward
                let coll = o.collector();
                let ch = o.channel();
                // keep the exchange rate inside [1e-3, 1e3]: the properties (and the contract's fixed-point
                // rates) are only defined there
                let room = o.l.saturating_mul(900).saturating_sub(o.n).max(1);
                let amount = boundary_amount(rng, 1, headroom.min(self.profile.max_amount / 10).min(room).max(2)).max(1);
                if rng.chance(1, 10) {
                    let imp = rng.pick(&sc.native_users).clone();
                    return vec![Op::NativeMint { addr: imp.clone(), amount }, sc.reward(&imp, &ch, amount)];
                }
                vec![Op::NativeMint { addr: coll.clone(), amount }, sc.reward(&coll, &ch, amount)]
            }
            7 => {
                // ---- withdraw
                let open: Vec<(&(u64, String), &crate::model::Req)> = m.reqs.iter().filter(|((b, _), r)| !r.withdrawn && received.iter().any(|x| x.id == *b)).collect();
                if !open.is_empty() && rng.chance(4, 5) {
                    let ((b, u), _) = *rng.pick(&open);
                    return vec![sc.withdraw(u, *b)];
                }
                let u = self.any_user(sc);
                let b = self.rng.range(1, o.pending.id + 1);
                vec![sc.withdraw(&u, b)]
            }
            8 => {
                // ---- recover
                // (a configured monitor holds one privilege, halting; here it is a caller like any other)
                let caller = if rng.chance(1, 3) { sc.admin.clone() } else if !sc.monitors.is_empty() && rng.chance(1, 5) { rng.pick(&sc.monitors).clone() } else { rng.pick(&sc.users).clone() };
                let paginated = match rng.below(3) {
                    0 => Some(true),
                    1 => Some(false),
                    _ => None,
                };
                let receiver: Option<String> = if !refundable.is_empty() && rng.chance(1, 2) { Some(rng.pick(&refundable).receiver.clone()) } else if rng.chance(1, 8) { Some(rng.pick(&sc.native_users).clone()) } else { None };
                let selected: Option<Vec<u64>> = if rng.chance(1, 4) {
                    // the admin is honest: forced recovery only ever names refundable packets.
                    // everybody else may name anything (and must be refused).
                    // a slip of the admin: packets of somebody else than the receiver named (must be refused)
                    let slip = caller == sc.admin && rng.chance(1, 5);
                    let pool: Vec<u64> = if slip {
                        let want = receiver.clone().unwrap_or_else(|| o.staker());
                        refundable.iter().filter(|p| p.receiver != want).map(|p| p.seq).collect()
                    } else if caller == sc.admin || rng.chance(3, 4) { refundable.iter().filter(|p| Some(&p.receiver) == receiver.as_ref() || (receiver.is_none() && p.receiver == o.staker())).map(|p| p.seq).collect() } else { o.queue.iter().map(|p| p.seq).collect() };
                    if pool.is_empty() {
                        if caller == sc.admin { None } else { Some(vec![rng.below(50)]) }
                    } else {
                        let k = 1 + rng.below(pool.len() as u64) as usize;
                        let mut sel: Vec<u64> = pool.into_iter().take(k).collect();
                        // a slip rather than dishonesty: the same refundable packet named twice
                        if rng.chance(1, 4) {
                            let d = *rng.pick(&sel);
                            sel.push(d);
                        }
                        Some(sel)
                    }
                } else {
                    None
                };
                vec![sc.recover(&caller, paginated, selected, receiver.as_deref())]
            }
            9 => {
                // ---- stray acknowledgement
                // (other channels: an unrelated one, one whose id merely contains the configured id, one that is a prefix of it)
                let ch = match rng.below(6) {
                    0 | 1 | 2 => o.channel(),
                    3 => "channel-5".to_string(),
                    4 => format!("{}4", o.channel()),
                    _ => { let c = o.channel(); if c.len() > "channel-1".len() { c[..c.len() - 1].to_string() } else { format!("x{c}") } }
                };
                let known: Vec<u64> = o.queue.iter().map(|p| p.seq).collect();
                let max = sc.w.next_seq.get(&o.channel()).cloned().unwrap_or(1);
                let seq = if ch != o.channel() && !known.is_empty() && rng.chance(1, 2) {
                    *rng.pick(&known)
                } else {
                    // an unknown or already consumed sequence on the right channel
                    let mut s = rng.below(max + 5);
                    if ch == o.channel() && known.contains(&s) {
                        s = max + 7;
                    }
                    s
                };
                let msg = if rng.chance(1, 3) {
                    json!({"ibc_lifecycle_complete": {"ibc_timeout": {"channel": ch, "sequence": seq}}})
                } else {
                    json!({"ibc_lifecycle_complete": {"ibc_ack": {"channel": ch, "sequence": seq, "ack": "{}", "success": rng.chance(1, 2)}}})
                };
                vec![Op::Sudo { contract: sc.q.clone(), msg: msg.to_string() }]
            }
            10 => {
                // ---- injected submission failure on the next transfer-producing op
                let idx = rng.below(2) as u32;
                let mut ops = vec![if rng.chance(1, 3) { Op::FaultNoData { idx } } else { Op::Fault { idx } }];
                match rng.below(3) {
                    0 => {
                        let u = self.any_user(sc);
                        let a = o.min_stake().max(1000).min(1_000_000_000_000_000_000_000_000_000);
                        let to = if self.rng.chance(1, 2) { Some(self.rng.pick(&sc.native_users).clone()) } else { None };
                        let mut pre = vec![Op::BankMint { addr: u.clone(), denom: sc.s.clone(), amount: a }];
                        pre.append(&mut ops);
                        pre.push(sc.stake(&u, a, to.as_deref(), None, None));
                        pre
                    }
                    1 => {
                        let coll = o.collector();
                        let mut pre = vec![Op::NativeMint { addr: coll.clone(), amount: 1000 }];
                        pre.push(Op::Fault { idx: 0 });
                        pre.push(sc.reward(&coll, &o.channel(), 1000));
                        pre
                    }
                    _ => {
                        ops[0] = Op::Fault { idx: 0 };
                        ops.push(sc.recover(&sc.users[0], None, None, None));
                        ops
                    }
                }
            }
            11 => self.admin_op(sc, o, m),
            _ => {
                // ---- donation: funds on a non-payable message
                let u = self.any_user(sc);
                let a = 1 + self.rng.below(1000) as u128;
                if self.rng.chance(1, 2) || sc.w.bal(&u, &sc.t) == 0 {
                    vec![Op::BankMint { addr: u.clone(), denom: sc.s.clone(), amount: a }, Op::exec(&u, &sc.q, json!({"submit_batch": {}}), coin(&sc.s, a))]
                } else {
                    let a = a.min(sc.w.bal(&u, &sc.t));
                    vec![Op::exec(&u, &sc.q, json!({"withdraw": {"batch_id": 1}}), coin(&sc.t, a))]
                }
            }
        }
    }

    fn admin_op(&mut self, sc: &Sc, o: &Obs, m: &Model) -> Vec<Op> {
        let rng = &mut self.rng;
        let c = rng.below(if self.profile.config_changes { 9 } else { 4 });
        match c {
            0 => {
                // fee withdraw: below / at / above what is really retained
                let backed = m.fees_backed.max(0) as u128;
                let a = match rng.below(4) {
                    0 => backed,
                    1 => backed / 2,
                    2 => o.fees.saturating_add(1),
                    _ => backed.min(1),
                };
                let caller = if rng.chance(1, 6) { rng.pick(&sc.users).clone() } else { sc.admin.clone() };
                vec![sc.fee_withdraw(&caller, a.min(if rng.chance(1, 8) { u128::MAX } else { backed.max(o.fees.saturating_add(1)) }))]
            }
            1 => {
                // trip and resume with identical totals
                let caller = if !sc.monitors.is_empty() && rng.chance(1, 2) { rng.pick(&sc.monitors).clone() } else { sc.admin.clone() };
                if rng.chance(1, 2) {
                    // stays halted for a few steps (other actors, the relayer included, keep going)
                    vec![sc.breaker(&caller)]
                } else {
                    vec![sc.breaker(&caller), sc.resume(o.n, o.l, o.rewards)]
                }
            }
            2 => {
                // re-base of the staked total only (the way a slash or an accounting correction is booked)
                if o.l == 0 {
                    return vec![sc.resume(o.n, o.l, o.rewards)];
                }
                let d = 1 + rng.below128((o.n / 20).max(2));
                let nn = if rng.chance(1, 2) { o.n.saturating_add(d) } else { o.n.saturating_sub(d).max(1) };
                // keep the rate inside [1e-3, 1e3]
                let nn = nn.clamp((o.l / 1000).max(1), o.l.saturating_mul(1000));
                vec![sc.resume(nn, o.l, o.rewards)]
            }
            3 => {
                let v = addr20(&sc.cfg.val_prefix, &format!("newval{}", rng.below(4)));
                if rng.chance(1, 2) {
                    vec![Op::exec(&sc.admin, &sc.q, json!({"add_validator": {"new_validator": v}}), vec![])]
                } else {
                    // any listed validator may go, the last one included
                    let listed: Vec<String> = o.cfg.get("native_chain_config").and_then(|n| n.get("validators")).and_then(|x| x.as_array()).map(|a| a.iter().filter_map(|x| x.as_str().map(|s| s.to_string())).collect()).unwrap_or_default();
                    let v = if !listed.is_empty() && rng.chance(2, 3) { rng.pick(&listed).clone() } else { v };
                    vec![Op::exec(&sc.admin, &sc.q, json!({"remove_validator": {"validator": v}}), vec![])]
                }
            }
            4 => {
                // fee config: rate and treasury toggles
                let rates: [u128; 7] = [0, 1, 10_000, 50_000, 99_999, 100_000, 100_001];
                // (now and then the staking contract itself is named as treasury: legal, fees then stay put)
                let tr = if rng.chance(1, 8) { Some(sc.q.clone()) } else if rng.chance(1, 2) { sc.treasury.clone() } else { None };
                let fee = json!({"dao_treasury_fee": rng.pick(&rates).to_string(), "treasury_address": tr});
                if rng.chance(1, 4) {
                    // together with the (unchanged) protocol section in one message
                    let pc = o.cfg.get("protocol_chain_config").cloned().unwrap_or(serde_json::Value::Null);
                    if !pc.is_null() {
                        return vec![Op::exec(&sc.admin, &sc.q, json!({"update_config": {"protocol_chain_config": pc, "protocol_fee_config": fee}}), vec![])];
                    }
                }
                vec![Op::exec(&sc.admin, &sc.q, json!({"update_config": {"protocol_fee_config": fee}}), vec![])]
            }
            5 => {
                // protocol chain section: minimum and oracle toggle (channel / denom / prefix fixed)
                let mins: [u128; 4] = [1, 100, 1000, 5000];
                // (now and then in the all-upper-case spelling, which names the same contract)
                let or = if rng.chance(2, 3) { if rng.chance(1, 6) { sc.oracle.clone().map(|o| o.to_uppercase()) } else { sc.oracle.clone() } } else { None };
                // a section that names no account may spell the prefix in capitals (accepted; the same chain is meant)
                let pfx = if or.is_none() && rng.chance(1, 3) { sc.cfg.prefix.to_uppercase() } else { sc.cfg.prefix.clone() };
                vec![Op::exec(
                    &sc.admin,
                    &sc.q,
                    json!({"update_config": {"protocol_chain_config": {"account_address_prefix": pfx, "ibc_token_denom": sc.s, "ibc_channel_id": sc.cfg.channel, "minimum_liquid_stake_amount": rng.pick(&mins).to_string(), "oracle_address": or}}}),
                    vec![],
                )]
            }
            6 => {
                let periods: [u64; 4] = [1, 60, 86_400, 1000];
                vec![Op::exec(&sc.admin, &sc.q, json!({"update_config": {"batch_period": rng.pick(&periods)}}), vec![])]
            }
            7 => {
                // native section: new staker / collector / unbonding period
                let st = if rng.chance(1, 2) { o.staker() } else { addr20(&sc.cfg.native_prefix, &format!("staker-alt{}", rng.below(2))) };
                let co = if rng.chance(1, 2) { o.collector() } else { addr20(&sc.cfg.native_prefix, &format!("collector-alt{}", rng.below(2))) };
                let unb: [u64; 5] = [1, 100, 86_400, 1_209_600, 0];
                let vals = o.cfg.get("native_chain_config").and_then(|n| n.get("validators")).cloned().unwrap_or(json!([]));
                vec![Op::exec(
                    &sc.admin,
                    &sc.q,
                    json!({"update_config": {"native_chain_config": {"account_address_prefix": sc.cfg.native_prefix, "validator_address_prefix": sc.cfg.val_prefix, "token_denom": NATIVE_DENOM, "validators": vals, "unbonding_period": rng.pick(&unb), "staker_address": st, "reward_collector_address": co}}}),
                    vec![],
                )]
            }
            _ => {
                let k = rng.below(3) as usize;
                let mons: Vec<String> = (0..k).map(|i| addr20(&sc.cfg.prefix, &format!("mon-new{i}"))).collect();
                vec![Op::exec(&sc.admin, &sc.q, json!({"update_config": {"monitors": mons}}), vec![])]
            }
        }
    }
}
