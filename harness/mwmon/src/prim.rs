//! Independent primitives, written from the public specifications and not from the code
//! under test: SHA-256 (FIPS 180-4), bech32 (BIP-173 / BIP-350), 256-bit mul/div,
//! protobuf wire reader/writer, 18-digit fixed point formatting, xoshiro256** PRNG.
//! `selftest()` checks them against fixed published vectors; a failure there is a harness
//! error (exit 2), never a violation.

// ---------------------------------------------------------------- SHA-256
const K: [u32; 64] = [
    0x428a2f98, 0x71374491, 0xb5c0fbcf, 0xe9b5dba5, 0x3956c25b, 0x59f111f1, 0x923f82a4, 0xab1c5ed5,
    0xd807aa98, 0x12835b01, 0x243185be, 0x550c7dc3, 0x72be5d74, 0x80deb1fe, 0x9bdc06a7, 0xc19bf174,
    0xe49b69c1, 0xefbe4786, 0x0fc19dc6, 0x240ca1cc, 0x2de92c6f, 0x4a7484aa, 0x5cb0a9dc, 0x76f988da,
    0x983e5152, 0xa831c66d, 0xb00327c8, 0xbf597fc7, 0xc6e00bf3, 0xd5a79147, 0x06ca6351, 0x14292967,
    0x27b70a85, 0x2e1b2138, 0x4d2c6dfc, 0x53380d13, 0x650a7354, 0x766a0abb, 0x81c2c92e, 0x92722c85,
    0xa2bfe8a1, 0xa81a664b, 0xc24b8b70, 0xc76c51a3, 0xd192e819, 0xd6990624, 0xf40e3585, 0x106aa070,
    0x19a4c116, 0x1e376c08, 0x2748774c, 0x34b0bcb5, 0x391c0cb3, 0x4ed8aa4a, 0x5b9cca4f, 0x682e6ff3,
    0x748f82ee, 0x78a5636f, 0x84c87814, 0x8cc70208, 0x90befffa, 0xa4506ceb, 0xbef9a3f7, 0xc67178f2,
];

pub fn sha256(data: &[u8]) -> [u8; 32] {
    let mut h: [u32; 8] = [
        0x6a09e667, 0xbb67ae85, 0x3c6ef372, 0xa54ff53a, 0x510e527f, 0x9b05688c, 0x1f83d9ab,
        0x5be0cd19,
    ];
    let bitlen = (data.len() as u64).wrapping_mul(8);
    let mut msg = data.to_vec();
    msg.push(0x80);
    while msg.len() % 64 != 56 {
        msg.push(0);
    }
    msg.extend_from_slice(&bitlen.to_be_bytes());
    for chunk in msg.chunks(64) {
        let mut w = [0u32; 64];
        for i in 0..16 {
            w[i] = u32::from_be_bytes([chunk[4 * i], chunk[4 * i + 1], chunk[4 * i + 2], chunk[4 * i + 3]]);
        }
        for i in 16..64 {
            let s0 = w[i - 15].rotate_right(7) ^ w[i - 15].rotate_right(18) ^ (w[i - 15] >> 3);
            let s1 = w[i - 2].rotate_right(17) ^ w[i - 2].rotate_right(19) ^ (w[i - 2] >> 10);
            w[i] = w[i - 16].wrapping_add(s0).wrapping_add(w[i - 7]).wrapping_add(s1);
        }
        let (mut a, mut b, mut c, mut d, mut e, mut f, mut g, mut hh) =
            (h[0], h[1], h[2], h[3], h[4], h[5], h[6], h[7]);
        for i in 0..64 {
            let s1 = e.rotate_right(6) ^ e.rotate_right(11) ^ e.rotate_right(25);
            let ch = (e & f) ^ ((!e) & g);
            let t1 = hh.wrapping_add(s1).wrapping_add(ch).wrapping_add(K[i]).wrapping_add(w[i]);
            let s0 = a.rotate_right(2) ^ a.rotate_right(13) ^ a.rotate_right(22);
            let maj = (a & b) ^ (a & c) ^ (b & c);
            let t2 = s0.wrapping_add(maj);
            hh = g;
            g = f;
            f = e;
            e = d.wrapping_add(t1);
            d = c;
            c = b;
            b = a;
            a = t1.wrapping_add(t2);
        }
        h[0] = h[0].wrapping_add(a);
        h[1] = h[1].wrapping_add(b);
        h[2] = h[2].wrapping_add(c);
        h[3] = h[3].wrapping_add(d);
        h[4] = h[4].wrapping_add(e);
        h[5] = h[5].wrapping_add(f);
        h[6] = h[6].wrapping_add(g);
        h[7] = h[7].wrapping_add(hh);
    }
    let mut out = [0u8; 32];
    for i in 0..8 {
        out[4 * i..4 * i + 4].copy_from_slice(&h[i].to_be_bytes());
    }
    out
}

pub fn hex(b: &[u8]) -> String {
    let mut s = String::with_capacity(b.len() * 2);
    for x in b {
        s.push_str(&format!("{:02x}", x));
    }
    s
}

// ---------------------------------------------------------------- bech32
const CHARSET: &[u8; 32] = b"qpzry9x8gf2tvdw0s3jn54khce6mua7l";
const BECH32_CONST: u32 = 1;
const BECH32M_CONST: u32 = 0x2bc830a3;

fn polymod(values: &[u8]) -> u32 {
    const GEN: [u32; 5] = [0x3b6a57b2, 0x26508e6d, 0x1ea119fa, 0x3d4233dd, 0x2a1462b3];
    let mut chk: u32 = 1;
    for v in values {
        let b = chk >> 25;
        chk = ((chk & 0x1ffffff) << 5) ^ (*v as u32);
        for (i, g) in GEN.iter().enumerate() {
            if (b >> i) & 1 == 1 {
                chk ^= g;
            }
        }
    }
    chk
}

fn hrp_expand(hrp: &str) -> Vec<u8> {
    let mut v: Vec<u8> = hrp.bytes().map(|b| b >> 5).collect();
    v.push(0);
    v.extend(hrp.bytes().map(|b| b & 31));
    v
}

pub fn convert_bits(data: &[u8], from: u32, to: u32, pad: bool) -> Option<Vec<u8>> {
    let mut acc: u32 = 0;
    let mut bits: u32 = 0;
    let mut out = Vec::new();
    let maxv: u32 = (1 << to) - 1;
    for v in data {
        let v = *v as u32;
        if v >> from != 0 {
            return None;
        }
        acc = (acc << from) | v;
        bits += from;
        while bits >= to {
            bits -= to;
            out.push(((acc >> bits) & maxv) as u8);
        }
    }
    if pad {
        if bits > 0 {
            out.push(((acc << (to - bits)) & maxv) as u8);
        }
    } else if bits >= from || ((acc << (to - bits)) & maxv) != 0 {
        return None;
    }
    Some(out)
}

#[derive(Clone, Copy, PartialEq, Eq, Debug)]
pub enum Variant {
    Bech32,
    Bech32m,
}

/// Encode `payload` (8-bit bytes) under `hrp` (must already be lower case).
pub fn bech32_encode_v(hrp: &str, payload: &[u8], variant: Variant) -> String {
    let data = convert_bits(payload, 8, 5, true).unwrap();
    let mut values = hrp_expand(hrp);
    values.extend_from_slice(&data);
    values.extend_from_slice(&[0u8; 6]);
    let c = match variant {
        Variant::Bech32 => BECH32_CONST,
        Variant::Bech32m => BECH32M_CONST,
    };
    let pm = polymod(&values) ^ c;
    let mut s = String::from(hrp);
    s.push('1');
    for d in &data {
        s.push(CHARSET[*d as usize] as char);
    }
    for i in 0..6 {
        s.push(CHARSET[((pm >> (5 * (5 - i))) & 31) as usize] as char);
    }
    s
}

/// Encode raw 5-bit groups (each < 32) under `hrp` with a valid bech32 checksum — also groups that do not
/// regroup into whole bytes (used for hostile inputs).
pub fn bech32_encode_5bit(hrp: &str, data: &[u8]) -> String {
    let mut values = hrp_expand(hrp);
    values.extend_from_slice(data);
    values.extend_from_slice(&[0u8; 6]);
    let pm = polymod(&values) ^ BECH32_CONST;
    let mut s = String::from(hrp);
    s.push('1');
    for d in data {
        s.push(CHARSET[(*d & 31) as usize] as char);
    }
    for i in 0..6 {
        s.push(CHARSET[((pm >> (5 * (5 - i))) & 31) as usize] as char);
    }
    s
}

pub fn bech32_encode(hrp: &str, payload: &[u8]) -> String {
    bech32_encode_v(hrp, payload, Variant::Bech32)
}

/// Decode; returns (hrp lower-cased, payload bytes, variant). Rejects mixed case, bad chars,
/// bad checksum, bad padding. No length limit (cosmos addresses may exceed 90 chars).
pub fn bech32_decode(s: &str) -> Option<(String, Vec<u8>, Variant)> {
    let has_lower = s.bytes().any(|b| b.is_ascii_lowercase());
    let has_upper = s.bytes().any(|b| b.is_ascii_uppercase());
    if has_lower && has_upper {
        return None;
    }
    if s.bytes().any(|b| !(33..=126).contains(&b)) {
        return None;
    }
    let s = s.to_ascii_lowercase();
    let pos = s.rfind('1')?;
    if pos < 1 || pos + 7 > s.len() {
        return None;
    }
    let hrp = &s[..pos];
    let mut data = Vec::new();
    for c in s[pos + 1..].bytes() {
        let d = CHARSET.iter().position(|x| *x == c)?;
        data.push(d as u8);
    }
    let mut values = hrp_expand(hrp);
    values.extend_from_slice(&data);
    let variant = match polymod(&values) {
        BECH32_CONST => Variant::Bech32,
        BECH32M_CONST => Variant::Bech32m,
        _ => return None,
    };
    let payload = convert_bits(&data[..data.len() - 6], 5, 8, false)?;
    Some((hrp.to_string(), payload, variant))
}

// ---------------------------------------------------------------- 256-bit helpers
#[derive(Clone, Copy, PartialEq, Eq, PartialOrd, Ord, Debug)]
pub struct U256 {
    pub hi: u128,
    pub lo: u128,
}

pub fn mul128(a: u128, b: u128) -> U256 {
    let (a1, a0) = (a >> 64, a & 0xffff_ffff_ffff_ffff);
    let (b1, b0) = (b >> 64, b & 0xffff_ffff_ffff_ffff);
    let p00 = a0 * b0;
    let p01 = a0 * b1;
    let p10 = a1 * b0;
    let p11 = a1 * b1;
    let mid = (p00 >> 64) + (p01 & 0xffff_ffff_ffff_ffff) + (p10 & 0xffff_ffff_ffff_ffff);
    let lo = (p00 & 0xffff_ffff_ffff_ffff) | (mid << 64);
    let hi = p11 + (p01 >> 64) + (p10 >> 64) + (mid >> 64);
    U256 { hi, lo }
}

/// floor(n / d), None if d == 0; quotient may need 256 bits.
pub fn div256(n: U256, d: u128) -> Option<(U256, u128)> {
    if d == 0 {
        return None;
    }
    // schoolbook binary long division
    let mut q = U256 { hi: 0, lo: 0 };
    let mut r: u128 = 0;
    let mut carry_r: bool; // remainder can momentarily need 129 bits
    for i in (0..256).rev() {
        let bit = if i >= 128 { (n.hi >> (i - 128)) & 1 } else { (n.lo >> i) & 1 };
        carry_r = (r >> 127) & 1 == 1;
        r = (r << 1) | bit;
        if carry_r || r >= d {
            r = r.wrapping_sub(d);
            if i >= 128 {
                q.hi |= 1u128 << (i - 128);
            } else {
                q.lo |= 1u128 << i;
            }
        }
    }
    Some((q, r))
}

/// floor(a*b/c) if it fits in 128 bits.
pub fn mul_div_floor(a: u128, b: u128, c: u128) -> Option<u128> {
    let (q, _) = div256(mul128(a, b), c)?;
    if q.hi != 0 {
        None
    } else {
        Some(q.lo)
    }
}

/// cosmwasm `Decimal` text for floor(num * 10^18 / den): integer part, '.', fraction with
/// trailing zeros removed; "0" for zero. None when den == 0 or it does not fit 128 bits.
pub fn dec18_ratio(num: u128, den: u128) -> Option<String> {
    let atomics = mul_div_floor(num, 1_000_000_000_000_000_000u128, den)?;
    Some(dec18_fmt(atomics))
}

pub fn dec18_fmt(atomics: u128) -> String {
    let one = 1_000_000_000_000_000_000u128;
    let whole = atomics / one;
    let frac = atomics % one;
    if frac == 0 {
        format!("{}", whole)
    } else {
        let f = format!("{:018}", frac);
        format!("{}.{}", whole, f.trim_end_matches('0'))
    }
}

// ---------------------------------------------------------------- protobuf wire
#[derive(Clone, Debug, PartialEq)]
pub enum WireVal {
    Varint(u64),
    Fixed64(u64),
    Bytes(Vec<u8>),
    Fixed32(u32),
}

#[derive(Clone, Debug, PartialEq)]
pub struct WireField {
    pub num: u32,
    pub val: WireVal,
}

pub fn read_varint(b: &[u8], pos: &mut usize) -> Option<u64> {
    let mut v: u64 = 0;
    let mut shift = 0;
    loop {
        let x = *b.get(*pos)?;
        *pos += 1;
        if shift >= 64 {
            return None;
        }
        v |= ((x & 0x7f) as u64) << shift;
        if x & 0x80 == 0 {
            return Some(v);
        }
        shift += 7;
    }
}

pub fn wire_parse(b: &[u8]) -> Option<Vec<WireField>> {
    let mut pos = 0;
    let mut out = Vec::new();
    while pos < b.len() {
        let key = read_varint(b, &mut pos)?;
        let num = (key >> 3) as u32;
        if num == 0 {
            return None;
        }
        let val = match key & 7 {
            0 => WireVal::Varint(read_varint(b, &mut pos)?),
            1 => {
                if pos + 8 > b.len() {
                    return None;
                }
                let mut a = [0u8; 8];
                a.copy_from_slice(&b[pos..pos + 8]);
                pos += 8;
                WireVal::Fixed64(u64::from_le_bytes(a))
            }
            2 => {
                let l = read_varint(b, &mut pos)? as usize;
                if pos.checked_add(l)? > b.len() {
                    return None;
                }
                let v = b[pos..pos + l].to_vec();
                pos += l;
                WireVal::Bytes(v)
            }
            5 => {
                if pos + 4 > b.len() {
                    return None;
                }
                let mut a = [0u8; 4];
                a.copy_from_slice(&b[pos..pos + 4]);
                pos += 4;
                WireVal::Fixed32(u32::from_le_bytes(a))
            }
            _ => return None,
        };
        out.push(WireField { num, val });
    }
    Some(out)
}

pub fn put_varint(out: &mut Vec<u8>, mut v: u64) {
    loop {
        let b = (v & 0x7f) as u8;
        v >>= 7;
        if v == 0 {
            out.push(b);
            return;
        }
        out.push(b | 0x80);
    }
}

pub fn put_bytes(out: &mut Vec<u8>, num: u32, b: &[u8]) {
    put_varint(out, ((num as u64) << 3) | 2);
    put_varint(out, b.len() as u64);
    out.extend_from_slice(b);
}

/// proto3 canonical: empty strings are omitted.
pub fn put_str(out: &mut Vec<u8>, num: u32, s: &str) {
    if !s.is_empty() {
        put_bytes(out, num, s.as_bytes());
    }
}

pub fn put_u64(out: &mut Vec<u8>, num: u32, v: u64) {
    if v != 0 {
        put_varint(out, (num as u64) << 3);
        put_varint(out, v);
    }
}

pub fn get_str(f: &[WireField], num: u32) -> Option<String> {
    // last occurrence wins for singular fields
    let mut r = Some(String::new());
    for x in f {
        if x.num == num {
            match &x.val {
                WireVal::Bytes(b) => r = String::from_utf8(b.clone()).ok(),
                _ => return None,
            }
        }
    }
    r
}

pub fn get_u64(f: &[WireField], num: u32) -> Option<u64> {
    let mut r = Some(0u64);
    for x in f {
        if x.num == num {
            match &x.val {
                WireVal::Varint(v) => r = Some(*v),
                _ => return None,
            }
        }
    }
    r
}

pub fn get_msgs(f: &[WireField], num: u32) -> Option<Vec<Vec<WireField>>> {
    let mut r = Vec::new();
    for x in f {
        if x.num == num {
            match &x.val {
                WireVal::Bytes(b) => r.push(wire_parse(b)?),
                _ => return None,
            }
        }
    }
    Some(r)
}

/// Coin{denom=1, amount=2}
pub fn get_coin(f: &[WireField]) -> Option<(String, u128)> {
    let d = get_str(f, 1)?;
    let a = get_str(f, 2)?;
    Some((d, a.parse::<u128>().ok()?))
}

pub fn enc_coin(denom: &str, amount: u128) -> Vec<u8> {
    let mut o = Vec::new();
    put_str(&mut o, 1, denom);
    put_str(&mut o, 2, &amount.to_string());
    o
}

// ---------------------------------------------------------------- PRNG
#[derive(Clone, Debug)]
pub struct Rng {
    s: [u64; 4],
}

impl Rng {
    pub fn new(seed: u64) -> Self {
        // splitmix64 expansion
        let mut z = seed.wrapping_add(0x9e3779b97f4a7c15);
        let mut s = [0u64; 4];
        for x in s.iter_mut() {
            z = z.wrapping_add(0x9e3779b97f4a7c15);
            let mut y = z;
            y = (y ^ (y >> 30)).wrapping_mul(0xbf58476d1ce4e5b9);
            y = (y ^ (y >> 27)).wrapping_mul(0x94d049bb133111eb);
            *x = y ^ (y >> 31);
        }
        Rng { s }
    }
    pub fn next(&mut self) -> u64 {
        let r = self.s[1].wrapping_mul(5).rotate_left(7).wrapping_mul(9);
        let t = self.s[1] << 17;
        self.s[2] ^= self.s[0];
        self.s[3] ^= self.s[1];
        self.s[1] ^= self.s[2];
        self.s[0] ^= self.s[3];
        self.s[2] ^= t;
        self.s[3] = self.s[3].rotate_left(45);
        r
    }
    pub fn below(&mut self, n: u64) -> u64 {
        if n == 0 {
            0
        } else {
            self.next() % n
        }
    }
    pub fn range(&mut self, lo: u64, hi: u64) -> u64 {
        lo + self.below(hi - lo + 1)
    }
    pub fn chance(&mut self, num: u64, den: u64) -> bool {
        self.below(den) < num
    }
    pub fn u128(&mut self) -> u128 {
        ((self.next() as u128) << 64) | self.next() as u128
    }
    pub fn below128(&mut self, n: u128) -> u128 {
        if n == 0 {
            0
        } else {
            self.u128() % n
        }
    }
    pub fn pick<'a, T>(&mut self, v: &'a [T]) -> &'a T {
        &v[self.below(v.len() as u64) as usize]
    }
    pub fn bytes(&mut self, n: usize) -> Vec<u8> {
        (0..n).map(|_| self.next() as u8).collect()
    }
    /// choose index by weights
    pub fn weighted(&mut self, w: &[u64]) -> usize {
        let tot: u64 = w.iter().sum();
        let mut r = self.below(tot.max(1));
        for (i, x) in w.iter().enumerate() {
            if r < *x {
                return i;
            }
            r -= *x;
        }
        w.len() - 1
    }
}

pub fn fnv64(data: &[u8]) -> u64 {
    let mut h: u64 = 0xcbf29ce484222325;
    for b in data {
        h ^= *b as u64;
        h = h.wrapping_mul(0x100000001b3);
    }
    h
}

// ---------------------------------------------------------------- self test
pub fn selftest() -> Result<(), String> {
    // FIPS 180 vectors
    let v = [
        ("", "e3b0c44298fc1c149afbf4c8996fb92427ae41e4649b934ca495991b7852b855"),
        ("abc", "ba7816bf8f01cfea414140de5dae2223b00361a396177a9cb410ff61f20015ad"),
        (
            "abcdbcdecdefdefgefghfghighijhijkijkljklmklmnlmnomnopnopq",
            "248d6a61d20638b8e5c026930c3e6039a33ce45964ff2167f6ecedd419db06c1",
        ),
    ];
    for (m, h) in v {
        if hex(&sha256(m.as_bytes())) != h {
            return Err(format!("sha256 vector {:?}", m));
        }
    }
    let million = vec![b'a'; 1_000_000];
    if hex(&sha256(&million)) != "cdc76e5c9914fb9281a1c7e284d73e67f1809a48a497200e046d39ccc7112cd0" {
        return Err("sha256 million a".into());
    }
    // BIP-173 valid
    for s in [
        "A12UEL5L",
        "a12uel5l",
        "an83characterlonghumanreadablepartthatcontainsthenumber1andtheexcludedcharactersbio1tt5tgs",
        "abcdef1qpzry9x8gf2tvdw0s3jn54khce6mua7lmqqqxw",
        "split1checkupstagehandshakeupstreamerranterredcaperred2y9e3w",
        "?1ezyfcl",
    ] {
        match bech32_decode(s) {
            Some((_, _, Variant::Bech32)) => {}
            // the BIP-173 list contains strings whose 5-bit data is not a whole number of
            // bytes; those fail only at the bit conversion, which is fine for addresses
            _ => {
                if s != "abcdef1qpzry9x8gf2tvdw0s3jn54khce6mua7lmqqqxw"
                    && s != "split1checkupstagehandshakeupstreamerranterredcaperred2y9e3w"
                {
                    return Err(format!("bech32 valid vector rejected: {}", s));
                }
            }
        }
    }
    for s in ["pzry9x0s0muk", "1pzry9x0s0muk", "x1b4n0q5v", "li1dgmt3", "A1G7SGD8", "10a06t8", "1qzzfhee", "A12uEL5L"] {
        if bech32_decode(s).is_some() {
            return Err(format!("bech32 invalid vector accepted: {}", s));
        }
    }
    // BIP-350 bech32m sample
    match bech32_decode("a1lqfn3a") {
        Some((_, _, Variant::Bech32m)) => {}
        _ => return Err("bech32m vector".into()),
    }
    // known cosmos address: 20 zero bytes under "cosmos"
    let a = bech32_encode("cosmos", &[0u8; 20]);
    if a != "cosmos1qqqqqqqqqqqqqqqqqqqqqqqqqqqqqqqqnrql8a" {
        return Err(format!("bech32 encode cosmos zero: {}", a));
    }
    let (h, p, _) = bech32_decode("osmo12z558dm3ew6avgjdj07mfslx80rp9sh8nt7q3w").ok_or("decode osmo")?;
    if h != "osmo" || p.len() != 20 {
        return Err("decode osmo addr".into());
    }
    if bech32_encode("osmo", &p) != "osmo12z558dm3ew6avgjdj07mfslx80rp9sh8nt7q3w" {
        return Err("re-encode osmo addr".into());
    }
    // 256-bit arithmetic
    if mul128(u128::MAX, u128::MAX) != (U256 { hi: u128::MAX - 1, lo: 1 }) {
        return Err("mul128 max".into());
    }
    if mul_div_floor(u128::MAX, u128::MAX, u128::MAX) != Some(u128::MAX) {
        return Err("muldiv max".into());
    }
    if mul_div_floor(7, 10, 3) != Some(23) || mul_div_floor(1 << 100, 1 << 100, 1 << 90) != Some(1 << 110) {
        return Err("muldiv small".into());
    }
    if mul_div_floor(u128::MAX, 2, 1).is_some() {
        return Err("muldiv overflow".into());
    }
    let (q, r) = div256(U256 { hi: 1, lo: 5 }, 3).unwrap();
    // (2^128+5)/3 = 113427455640312821154458202477256070487 r 0  (2^128 = 3*k+1, +5 => 6 -> +2 r 0)
    if q.hi != 0 || q.lo != 113427455640312821154458202477256070487u128 || r != 0 {
        return Err("div256".into());
    }
    if dec18_ratio(3, 2).as_deref() != Some("1.5") || dec18_ratio(1, 1).as_deref() != Some("1")
        || dec18_ratio(1, 3).as_deref() != Some("0.333333333333333333")
        || dec18_fmt(1) != "0.000000000000000001" || dec18_fmt(0) != "0"
    {
        return Err("dec18".into());
    }
    // protobuf spec example: field 1 varint 150 => 08 96 01 ; field 2 string "testing"
    let f = wire_parse(&[0x08, 0x96, 0x01, 0x12, 0x07, 0x74, 0x65, 0x73, 0x74, 0x69, 0x6e, 0x67]).ok_or("wire parse")?;
    if get_u64(&f, 1) != Some(150) || get_str(&f, 2).as_deref() != Some("testing") {
        return Err("wire example".into());
    }
    let mut o = Vec::new();
    put_u64(&mut o, 1, 150);
    put_str(&mut o, 2, "testing");
    if o != [0x08, 0x96, 0x01, 0x12, 0x07, 0x74, 0x65, 0x73, 0x74, 0x69, 0x6e, 0x67] {
        return Err("wire write".into());
    }
    Ok(())
}
