#![allow(dead_code, unused_variables, unused_imports, clippy::all)]
mod gen;
mod hist;
mod hostile;
mod model;
mod obs;
mod prim;
mod scenario;
mod store;
mod world;
mod lanes;

use serde_json::{json, Value};
use std::collections::{BTreeMap, BTreeSet};
use std::time::Instant;

pub fn intern(p: &str) -> &'static str {
    const ALL: [&str; 20] = ["C01", "C02", "C03", "C04", "C05", "C06", "C07", "C08", "C09", "C10", "C11", "C12", "C13", "C14", "C15", "C16", "C17", "C18", "C19", "C20"];
    ALL.iter().find(|x| **x == p).copied().unwrap_or("C00")
}

pub struct Args {
    pub m: BTreeMap<String, String>,
}
impl Args {
    pub fn parse(v: &[String]) -> Args {
        let mut m = BTreeMap::new();
        let mut i = 0;
        while i < v.len() {
            if let Some(k) = v[i].strip_prefix("--") {
                let val = v.get(i + 1).cloned().unwrap_or_default();
                m.insert(k.to_string(), val);
                i += 2;
            } else {
                i += 1;
            }
        }
        Args { m }
    }
    pub fn u64(&self, k: &str, d: u64) -> u64 {
        self.m.get(k).and_then(|x| x.parse().ok()).unwrap_or(d)
    }
    pub fn s(&self, k: &str, d: &str) -> String {
        self.m.get(k).cloned().unwrap_or_else(|| d.to_string())
    }
}

/// Shard result accumulator shared by the history engine and the lanes.
#[derive(Default)]
pub struct Acc {
    pub evals: BTreeMap<String, u64>,
    pub distinct: BTreeMap<String, BTreeSet<u64>>,
    pub counters: BTreeMap<String, u64>,
    pub violations: Vec<Value>,
    pub samples: Vec<Value>,
    pub notes: Vec<String>,
    pub inconclusive: Vec<String>,
    pub extra: BTreeMap<String, String>,
}

impl Acc {
    pub fn seen(&mut self, prop: &str, key: &str) {
        *self.evals.entry(prop.to_string()).or_insert(0) += 1;
        self.distinct.entry(prop.to_string()).or_default().insert(prim::fnv64(key.as_bytes()));
    }
    pub fn count(&mut self, k: &str) {
        *self.counters.entry(k.to_string()).or_insert(0) += 1;
    }
    pub fn add(&mut self, k: &str, n: u64) {
        *self.counters.entry(k.to_string()).or_insert(0) += n;
    }
    pub fn to_json(&self, wall: f64) -> Value {
        json!({
            "evals": self.evals,
            "distinct": self.distinct.iter().map(|(k, v)| (k.clone(), v.iter().cloned().collect::<Vec<u64>>())).collect::<BTreeMap<_, _>>(),
            "counters": self.counters,
            "violations": self.violations,
            "samples": self.samples,
            "notes": self.notes,
            "inconclusive": self.inconclusive,
            "extra": self.extra,
            "wall_s": wall,
        })
    }
}

pub fn sig_of(what: &str) -> String {
    // stable signature of a violation text: digits and addresses removed
    let mut out = String::new();
    for tok in what.split_whitespace() {
        let has_digit = tok.chars().any(|c| c.is_ascii_digit());
        if has_digit {
            continue;
        }
        out.push_str(tok);
        out.push(' ');
        if out.len() > 70 {
            break;
        }
    }
    out.trim().to_string()
}

fn run_hist(a: &Args, acc: &mut Acc) {
    let props: Vec<&'static str> = a.s("props", "C01").split(',').map(intern).collect();
    let seed = a.u64("seed", 1);
    let shard = a.u64("shard", 0);
    let histories = a.u64("histories", 20);
    let steps = a.u64("steps", 300) as usize;
    let budget = a.u64("budget-s", 0);
    let replay_dir = a.s("replay-dir", "/verif/replays");
    let hostile_n = a.u64("hostile", 0);
    let extreme = a.u64("extreme", 0) == 1;
    let start = Instant::now();
    let mut master = prim::Rng::new(seed.wrapping_mul(0x9E3779B97F4A7C15) ^ (shard + 1).wrapping_mul(0xD1B54A32D192ED03));
    let mut h = 0u64;
    let mut viol_sigs: BTreeSet<String> = BTreeSet::new();
    loop {
        if budget > 0 {
            if start.elapsed().as_secs() >= budget {
                break;
            }
        } else if h >= histories {
            break;
        }
        let hseed = master.next();
        let mut crng = prim::Rng::new(hseed);
        let cfg = if h == 0 && shard == 0 {
            scenario::Cfg::default_cfg()
        } else if extreme && h % 2 == 1 {
            scenario::Cfg::random_extreme(&mut crng)
        } else {
            scenario::Cfg::random(&mut crng)
        };
        let mut run = match hist::Run::new(&cfg, &props) {
            Ok(r) => r,
            Err(r) => {
                acc.count("instantiate_refused");
                for p in &r.panics {
                    acc.count(&format!("panic:{p}"));
                    if props.contains(&"C16") {
                        let what = format!("panic in {p} during instantiate");
                        let sig = sig_of(&what);
                        if viol_sigs.insert(sig.clone()) {
                            let path = format!("{replay_dir}/C16-{seed}-{shard}-{h}.json");
                            let doc = json!({"engine": "hist", "seed": hseed, "cfg": serde_json::to_value(&cfg).unwrap(), "props": props, "trace": [], "violations": [{"property": "C16", "what": what}]});
                            let _ = std::fs::write(&path, serde_json::to_string_pretty(&doc).unwrap());
                            acc.violations.push(json!({"property": "C16", "what": what, "sig": sig, "replay": path}));
                        }
                    }
                }
                h += 1;
                continue;
            }
        };
        // a separate small deployment goes through a complete exit and re-entry
        let mut runs: Vec<hist::Run> = vec![];
        if let Ok(mut mini) = hist::Run::new(&cfg, &props) {
            mini.exit_scenario();
            runs.push(mini);
        }
        run.prologue();
        let prof = hist::profile_for(props[0], &mut crng);
        let mut g = gen::Gen::new(hseed ^ 0xabcdef, prof);
        run.random_steps(&mut g, steps);
        if hostile_n > 0 {
            // interleave hostile messages with ordinary traffic so that extreme configuration
            // accepted on the way becomes part of the reachable states
            for k in 0..hostile_n {
                let ops = hostile::next(&mut g.rng, &run.sc, &run.obs);
                run.steps(ops);
                if k % 4 == 3 {
                    run.random_steps(&mut g, 1);
                }
            }
        }
        runs.push(run);
        for run in runs {
        // merge
        for (k, v) in &run.model.counters {
            acc.add(k, *v);
        }
        for (p, n) in &run.model.evals {
            *acc.evals.entry(p.to_string()).or_insert(0) += n;
        }
        for (p, s) in &run.model.distinct {
            acc.distinct.entry(p.to_string()).or_default().extend(s.iter());
        }
        for (p, n) in &run.model.panics {
            acc.add(&format!("panic:{p}"), *n);
        }
        acc.add("steps", run.steps);
        acc.add("zero_amount_sends", run.sc.w.zero_sends);
        acc.count("histories");
        if acc.samples.len() < 2 {
            let tail: Vec<&scenario::Op> = run.trace.iter().rev().take(6).collect();
            acc.samples.push(json!({"cfg": serde_json::to_value(&run.sc.cfg).unwrap(), "steps": run.steps, "last_ops": tail}));
        }
        if !run.viols.is_empty() {
            let upto = run.first_viol_at.unwrap_or(run.trace.len());
            let mut wrote = None;
            for v in &run.viols {
                if !props.contains(&v.prop) {
                    continue;
                }
                let sig = sig_of(&v.what);
                if viol_sigs.insert(format!("{}:{}", v.prop, sig)) {
                    let path = match &wrote {
                        Some(p) => String::clone(p),
                        None => {
                            let path = format!("{replay_dir}/{}-{seed}-{shard}-{h}.json", v.prop);
                            let doc = run.replay_json(hseed, upto.max(run.trace.len().min(upto)));
                            let _ = std::fs::create_dir_all(&replay_dir);
                            let _ = std::fs::write(&path, serde_json::to_string(&doc).unwrap());
                            wrote = Some(path.clone());
                            path
                        }
                    };
                    acc.violations.push(json!({"property": v.prop, "what": v.what, "sig": sig, "replay": path}));
                }
            }
        }
        }
        h += 1;
    }
}

fn main() {
    let argv: Vec<String> = std::env::args().collect();
    if argv.len() < 2 {
        eprintln!("usage: mwmon selftest | hist ... | lane <name> ... | replay <file>");
        std::process::exit(2);
    }
    world::install_panic_hook();
    if let Err(e) = prim::selftest() {
        eprintln!("INCONCLUSIVE primitive self-test failed: {e}");
        std::process::exit(2);
    }
    if let Err(e) = world::selftest() {
        eprintln!("INCONCLUSIVE simulator self-test failed: {e}");
        std::process::exit(2);
    }
    let a = Args::parse(&argv[2..]);
    let start = Instant::now();
    let mut acc = Acc::default();
    match argv[1].as_str() {
        "selftest" => {
            println!("selftest ok");
            return;
        }
        "hist" => run_hist(&a, &mut acc),
        "lane" => lanes::run(&argv[2], &Args::parse(&argv[3..]), &mut acc),
        "digest" => {
            let txt = std::fs::read_to_string(&argv[2]).expect("read trace file");
            let v: Value = serde_json::from_str(&txt).expect("parse trace file");
            match lanes::c19::digest_of_trace(&v) {
                Ok(d) => {
                    println!("{}", d.iter().map(|x| format!("{x:x}")).collect::<Vec<_>>().join(","));
                    return;
                }
                Err(e) => {
                    println!("INCONCLUSIVE digest failed: {e}");
                    std::process::exit(2);
                }
            }
        }
        "replay" => {
            let txt = std::fs::read_to_string(&argv[2]).expect("read replay file");
            let v: Value = serde_json::from_str(&txt).expect("parse replay file");
            let eng = v.get("engine").and_then(|x| x.as_str()).unwrap_or("hist");
            let r = if eng == "hist" { hist::replay(&v).map(|vs| vs.into_iter().map(|x| (x.prop.to_string(), x.what)).collect::<Vec<_>>()) } else { lanes::replay(&v) };
            match r {
                Ok(vs) => {
                    let props: Vec<String> = serde_json::from_value(v.get("props").cloned().unwrap_or(json!([]))).unwrap_or_default();
                    let mut n = 0;
                    for (p, w) in vs {
                        if props.is_empty() || props.contains(&p) {
                            println!("VIOLATION property={p} replay={} :: {w}", argv[2]);
                            n += 1;
                        }
                    }
                    if n == 0 {
                        println!("replay: no violation on the current tree");
                        std::process::exit(0);
                    }
                    std::process::exit(1);
                }
                Err(e) => {
                    println!("INCONCLUSIVE replay failed: {e}");
                    std::process::exit(2);
                }
            }
        }
        _ => {
            eprintln!("unknown command");
            std::process::exit(2);
        }
    }
    let out = a.s("out", "");
    let doc = acc.to_json(start.elapsed().as_secs_f64());
    if out.is_empty() {
        println!("{}", serde_json::to_string_pretty(&doc).unwrap());
    } else {
        std::fs::write(&out, serde_json::to_string(&doc).unwrap()).expect("write shard result");
    }
}
