//! History runner: scenario + monitors + trace recording + replay.
use crate::gen::*;
use crate::model::*;
use crate::obs::*;
use crate::prim::Rng;
use crate::scenario::*;
use crate::world::*;
use serde_json::{json, Value};

#[derive(Clone)]
pub struct Run {
    pub sc: Sc,
    pub model: Model,
    pub obs: Obs,
    pub trace: Vec<Op>,
    pub viols: Vec<Viol>,
    pub steps: u64,
    pub first_viol_at: Option<usize>,
    /// per-step behaviour digests (C19 differential between the two builds)
    pub digests: Option<Vec<u64>>,
}

impl Run {
    pub fn new(cfg: &Cfg, props: &[&'static str]) -> Result<Run, TxResult> {
        let sc = Sc::new(cfg)?;
        let model = Model::new(props, &sc);
        let obs = Obs::take(&sc);
        Ok(Run { sc, model, obs, trace: vec![], viols: vec![], steps: 0, first_viol_at: None, digests: None })
    }

    pub fn step(&mut self, op: Op) -> TxResult {
        let pre_w = self.sc.w.clone();
        let res = self.sc.apply(&op);
        let post = Obs::take(&self.sc);
        let vs = self.model.step(&self.sc, &pre_w, &self.obs, &op, &res, &post);
        if let Some(d) = self.digests.as_mut() {
            let evs: Vec<String> = res
                .events
                .iter()
                .map(|e| match e {
                    Ev::TfCreate { denom, .. } => format!("tf:create:{denom}"),
                    Ev::TfMint { denom, amount, to, .. } => format!("tf:mint:{denom}:{amount}:{to}"),
                    Ev::TfBurn { denom, amount, from, .. } => format!("tf:burn:{denom}:{amount}:{from}"),
                    other => format!("{other:?}"),
                })
                .collect();
            let txt = format!("{}|{}|{:?}|{:?}|{:?}", op.kind(), res.ok, post, evs, res.attrs);
            d.push(crate::prim::fnv64(txt.as_bytes()));
        }
        self.obs = post;
        self.trace.push(op);
        self.steps += 1;
        if !vs.is_empty() && self.first_viol_at.is_none() {
            self.first_viol_at = Some(self.trace.len());
        }
        self.viols.extend(vs);
        res
    }

    pub fn steps(&mut self, ops: Vec<Op>) -> Option<TxResult> {
        let mut last = None;
        for o in ops {
            last = Some(self.step(o));
        }
        last
    }

    /// Scripted scenario that deterministically produces every event class the history
    /// monitors need (each IBC outcome, each recovery flavour, short / exact / long delivery,
    /// stakes at the three rate regimes, first stake, complete exit, ...).
    pub fn prologue(&mut self) {
        let sc = self.sc.clone();
        let u = sc.users.clone();
        let nu = sc.native_users.clone();
        // every third deployment works with 18-decimals-sized amounts
        let base = 1_000_000u128.max(sc.cfg.min_stake.min(1_000_000_000_000_000_000_000_000) * 10);
        let k: u128 = if base <= 10_000_000 { [1, 1_000_000_000, 1_000_000_000_000_000_000][(sc.cfg.salt / 7 % 3) as usize] } else { 1 };
        let big = base * k + (k > 1) as u128 * 12_345;
        self.step(sc.resume(0, 0, 0));
        for x in &u {
            self.step(Op::BankMint { addr: x.clone(), denom: sc.s.clone(), amount: big * 100 });
        }
        // first stake into the empty pool, then to another protocol user, then to a native user
        self.step(sc.stake(&u[0], big, None, None, Some(big)));
        self.relay_last("ack");
        self.step(sc.stake(&u[1], big, Some(&u[2]), None, None));
        self.relay_last("err");
        self.step(sc.recover(&u[1], None, None, None));
        self.relay_last("ack");
        self.step(sc.stake(&u[1], big / 2, Some(&nu[0]), Some(true), None));
        self.relay_all("ack");
        // reward => rate above 1
        let coll = self.obs.collector();
        let ch = self.obs.channel();
        self.step(Op::NativeMint { addr: coll.clone(), amount: big / 10 });
        self.step(sc.reward(&coll, &ch, big / 10));
        self.relay_all("ack");
        // stakes at rate above 1 to protocol and native recipients; slippage guard at / above
        let rm = crate::prim::mul_div_floor(big, self.obs.l, self.obs.n.max(1)).unwrap_or(0);
        self.step(sc.stake(&u[0], big, None, None, Some(rm)));
        self.step(sc.stake(&u[0], big, None, None, Some(rm + 1)));
        self.step(sc.stake(&u[2], big, Some(&nu[1]), Some(true), None));
        // LST transfer fails, staker transfer times out
        let inflight: Vec<(String, u64, String)> = self.sc.w.packets.values().filter(|p| p.status == PStatus::InFlight).map(|p| (p.channel.clone(), p.seq, p.denom.clone())).collect();
        for (c, s, d) in &inflight {
            if *d == sc.t {
                self.step(Op::Relay { channel: c.clone(), seq: *s, outcome: "err".into() });
            }
        }
        self.step(Op::Advance { secs: 1001 });
        self.relay_all("timeout");
        // receiver-directed, paginated and forced recoveries
        self.step(sc.recover(&u[3 % u.len()], Some(true), None, Some(&nu[1])));
        self.step(sc.recover(&u[0], Some(false), None, None));
        self.relay_all("err");
        let refundable: Vec<u64> = self.obs.queue.iter().filter(|p| p.status != "sent" && p.receiver == self.obs.staker()).map(|p| p.seq).collect();
        if !refundable.is_empty() {
            self.step(sc.recover(&u[0], None, Some(refundable.clone()), None)); // non-admin forced: refused
            self.step(sc.recover(&sc.admin, None, Some(refundable), None));
        }
        let lst_ref: Vec<(u64, String)> = self.obs.queue.iter().filter(|p| p.status != "sent" && p.denom == sc.t).map(|p| (p.seq, p.receiver.clone())).collect();
        for (_, r) in lst_ref.iter().take(1) {
            self.step(sc.recover(&u[0], None, None, Some(r)));
        }
        self.relay_all("ack");
        // stray acknowledgements
        self.step(Op::Sudo { contract: sc.q.clone(), msg: json!({"ibc_lifecycle_complete": {"ibc_ack": {"channel": "channel-5", "sequence": 1, "ack": "{}", "success": false}}}).to_string() });
        self.step(Op::Sudo { contract: sc.q.clone(), msg: json!({"ibc_lifecycle_complete": {"ibc_timeout": {"channel": ch, "sequence": 999_999}}}).to_string() });
        self.step(Op::Sudo { contract: sc.q.clone(), msg: json!({"ibc_lifecycle_complete": {"ibc_ack": {"channel": ch, "sequence": 1, "ack": "{}", "success": false}}}).to_string() });
        // injected submission failures
        self.step(Op::Fault { idx: 0 });
        self.step(sc.stake(&u[0], big, None, None, None));
        self.step(Op::Fault { idx: 1 });
        self.step(sc.stake(&u[0], big, Some(&nu[0]), Some(true), None));
        self.step(Op::FaultNoData { idx: 0 });
        self.step(sc.stake(&u[0], big, None, None, None));
        self.step(Op::NativeMint { addr: coll.clone(), amount: 1000 });
        self.step(Op::Fault { idx: 0 });
        self.step(sc.reward(&coll, &ch, 1000));
        self.step(Op::NativeBurn { addr: coll.clone(), amount: 1000 });
        // unstake: repeated requests, several users; submit at due-1, due; three deliveries
        for round in 0..3u32 {
            let holders: Vec<String> = u.iter().filter(|x| self.sc.w.bal(x, &sc.t) > 3).cloned().collect();
            for (i, h) in holders.iter().enumerate() {
                let bal = self.sc.w.bal(h, &sc.t);
                self.step(sc.unstake(h, bal / 4 + 1));
                if i == 0 {
                    self.step(sc.unstake(h, 1));
                }
            }
            let due = self.obs.pending.next_time_s;
            let now = self.sc.w.now_s();
            if due > now + 1 {
                self.step(Op::Advance { secs: due - now - 1 });
                self.step(sc.submit(&u[1]));
                self.step(Op::Advance { secs: 1 });
            } else if due > now {
                self.step(Op::Advance { secs: due - now });
            }
            self.step(sc.submit(&u[1]));
            self.step(sc.submit(&u[1])); // empty batch
            let b = self.obs.batches.iter().rev().find(|b| b.status == "submitted").cloned();
            if let Some(b) = b {
                let staker = self.obs.staker();
                self.step(sc.deliver(&staker, &ch, b.id, b.expected.max(1))); // early unless unbonding is tiny
                let now = self.sc.w.now_s();
                if b.next_time_s > now + 1 {
                    self.step(Op::Advance { secs: b.next_time_s - now - 1 });
                    self.step(sc.deliver(&staker, &ch, b.id, b.expected.max(1)));
                    self.step(Op::Advance { secs: 1 });
                } else if b.next_time_s > now {
                    self.step(Op::Advance { secs: b.next_time_s - now });
                }
                if self.obs.batches.iter().any(|x| x.id == b.id && x.status == "submitted") {
                    // impostors first
                    self.step(Op::NativeMint { addr: nu[0].clone(), amount: b.expected.max(1) });
                    self.step(sc.deliver(&nu[0], &ch, b.id, b.expected.max(1)));
                    match round {
                        0 => {
                            self.step(sc.deliver(&staker, &ch, b.id, b.expected));
                        }
                        1 if b.expected > 3 => {
                            self.step(Op::NativeBurn { addr: staker.clone(), amount: 3 });
                            self.step(sc.deliver(&staker, &ch, b.id, b.expected - 3));
                        }
                        _ => {
                            self.step(Op::NativeMint { addr: staker.clone(), amount: 7 });
                            self.step(sc.deliver(&staker, &ch, b.id, b.expected + 7));
                        }
                    }
                }
                // withdrawals: own, foreign, twice
                let reqs: Vec<String> = self.model.reqs.iter().filter(|((bb, _), r)| *bb == b.id && !r.withdrawn).map(|((_, x), _)| x.clone()).collect();
                for (i, r) in reqs.iter().enumerate() {
                    if i % 2 == 0 || round == 2 {
                        self.step(sc.withdraw(r, b.id));
                        self.step(sc.withdraw(r, b.id));
                    }
                }
                self.step(sc.withdraw(&sc.contract_user, b.id));
            }
            // another reward between rounds, fee withdraw
            self.step(Op::NativeMint { addr: coll.clone(), amount: 12_345 });
            self.step(sc.reward(&coll, &ch, 12_345));
            self.relay_all("ack");
            let backed = self.model.fees_backed.max(0) as u128;
            self.step(sc.fee_withdraw(&sc.admin, backed / 2));
            self.step(sc.fee_withdraw(&sc.admin, self.obs.fees + 1));
        }
        // re-base below 1 and stake at rate below 1 to both kinds of recipient
        if self.obs.l > 0 {
            let l = self.obs.l;
            self.step(sc.resume((l / 2).max(1), l, self.obs.rewards));
            self.step(sc.stake(&u[0], big, None, None, None));
            self.step(sc.stake(&u[0], big, Some(&nu[0]), Some(true), None));
            self.relay_all("ack");
        }
        // breaker by admin, resume
        self.step(sc.breaker(&sc.admin));
        self.step(sc.stake(&u[0], big, None, None, None));
        let (n, l, r) = (self.obs.n, self.obs.l, self.obs.rewards);
        self.step(sc.resume(n, l, r));
    }

    /// Complete exit and re-entry on a fresh deployment: every holder unstakes everything in one
    /// batch (batch total == whole supply), the batch is submitted, delivered and withdrawn, then
    /// somebody stakes into the emptied pool.
    pub fn exit_scenario(&mut self) {
        let sc = self.sc.clone();
        let u = sc.users.clone();
        // every third deployment works with 18-decimals-sized amounts
        let base = 1_000_000u128.max(sc.cfg.min_stake.min(1_000_000_000_000_000_000_000_000) * 10);
        let k: u128 = if base <= 10_000_000 { [1, 1_000_000_000, 1_000_000_000_000_000_000][(sc.cfg.salt / 7 % 3) as usize] } else { 1 };
        let big = base * k + (k > 1) as u128 * 12_345;
        self.step(sc.resume(0, 0, 0));
        for x in u.iter().take(3) {
            self.step(Op::BankMint { addr: x.clone(), denom: sc.s.clone(), amount: big * 3 });
        }
        self.step(sc.stake(&u[0], big, None, None, None));
        self.step(sc.stake(&u[1], big + 7, None, None, None));
        self.relay_all("ack");
        // an accounting correction of the LST total alone, at a 1:1 pool (only in runs that watch nothing but
        // the oracle: the token supply is deliberately left behind)
        if self.model.on("C15") && self.model.enabled.len() == 1 && self.obs.state_ok && self.obs.n == self.obs.l && self.obs.l > 10 {
            let (n, l, r) = (self.obs.n, self.obs.l, self.obs.rewards);
            self.step(sc.breaker(&sc.admin));
            self.step(sc.resume(n, l - l / 5, r));
            self.step(sc.breaker(&sc.admin));
            self.step(sc.resume(n, l, r));
            self.model.count("lst_only_correction");
        }
        let coll = self.obs.collector();
        let ch = self.obs.channel();
        self.step(Op::NativeMint { addr: coll.clone(), amount: 999 * k });
        self.step(sc.reward(&coll, &ch, 999 * k));
        self.relay_all("ack");
        for x in u.iter().take(2) {
            let bal = self.sc.w.bal(x, &sc.t);
            if bal > 0 {
                self.step(sc.unstake(x, bal));
            }
        }
        // every LST in existence is now queued for unstaking, but it still exists: rewards are processed
        self.step(Op::NativeMint { addr: coll.clone(), amount: 321 * k });
        self.step(sc.reward(&coll, &ch, 321 * k));
        self.relay_all("ack");
        let due = self.obs.pending.next_time_s;
        let now = self.sc.w.now_s();
        if due > now {
            self.step(Op::Advance { secs: due - now });
        }
        self.step(sc.submit(&u[2]));
        let b = self.obs.batches.iter().find(|b| b.status == "submitted").cloned();
        if let Some(b) = b {
            let now = self.sc.w.now_s();
            if b.next_time_s > now {
                self.step(Op::Advance { secs: b.next_time_s - now });
            }
            let staker = self.obs.staker();
            self.step(sc.deliver(&staker, &ch, b.id, b.expected));
            self.step(sc.withdraw(&u[0], b.id));
            self.step(sc.withdraw(&u[1], b.id));
        }
        // rewards are refused while no LST exists (also when an accounting correction has left a
        // staked total without any LST); then the first stake after the complete exit sweeps it
        self.step(Op::NativeMint { addr: coll.clone(), amount: 500 });
        self.step(sc.reward(&coll, &ch, 500));
        if self.obs.l == 0 && sc.cfg.salt % 2 == 0 {
            let r = self.obs.rewards;
            self.step(sc.resume(12_345, 0, r));
            self.step(sc.reward(&coll, &ch, 500));
        }
        self.step(Op::NativeBurn { addr: coll.clone(), amount: 500 });
        self.step(sc.stake(&u[2], big, None, None, None));
        self.relay_all("ack");
        // acknowledgements and timeouts keep arriving while the breaker is tripped
        {
            let na = sc.native_users[0].clone();
            let amt = sc.cfg.min_stake.min(1_000_000_000_000_000_000_000_000).max(1000) * 3;
            self.step(sc.stake(&u[2], amt, Some(&na), Some(true), None));
            self.step(sc.breaker(&sc.admin));
            self.relay_all(if sc.cfg.salt % 2 == 0 { "err" } else { "timeout_or_err" });
            if self.obs.state_ok {
                let (n, l, r) = (self.obs.n, self.obs.l, self.obs.rewards);
                self.step(sc.resume(n, l, r));
            } else {
                self.step(sc.resume(0, 0, 0));
            }
            self.step(sc.recover(&u[0], None, None, None));
            self.step(sc.recover(&u[1], Some(true), None, Some(&na)));
            self.relay_all("ack");
        }
        // more than one page of failed transfers for one receiver (every other deployment: the minted
        // LST goes to a native-chain recipient, so two receivers and two denoms are in play)
        let na = sc.native_users[0].clone();
        let to_native = sc.cfg.salt % 4 >= 2;
        for i in 0..12u128 {
            let amt = sc.cfg.min_stake.min(1_000_000_000_000_000_000_000_000).max(1000) + i;
            if to_native {
                self.step(sc.stake(&u[2], amt, Some(&na), Some(true), None));
            } else {
                self.step(sc.stake(&u[2], amt, None, None, None));
            }
        }
        self.relay_all(if sc.cfg.salt % 3 == 0 { "timeout_or_err" } else { "err" });
        let staker = self.obs.staker();
        let receivers: Vec<String> = if to_native { vec![staker.clone(), na.clone()] } else { vec![staker.clone()] };
        for recv in &receivers {
            let r_arg = if *recv == staker { None } else { Some(recv.as_str()) };
            match sc.cfg.salt % 5 {
                0 => {
                    self.step(sc.recover(&u[0], None, None, r_arg));
                }
                1 => {
                    // explicitly not paginated
                    self.step(sc.recover(&u[0], Some(false), None, r_arg));
                }
                2 | 3 => {
                    self.step(sc.recover(&u[0], Some(true), None, r_arg));
                    self.step(sc.recover(&u[1], Some(true), None, r_arg));
                }
                _ => {
                    // admin-forced, every refundable packet of that receiver (one denom at a time), asked for page-wise
                    let mine: Vec<(u64, String)> = self.obs.queue.iter().filter(|p| p.receiver == *recv && p.status != "sent").map(|p| (p.seq, p.denom.clone())).collect();
                    let mut denoms: Vec<String> = mine.iter().map(|x| x.1.clone()).collect();
                    denoms.sort();
                    denoms.dedup();
                    for d in denoms {
                        let mut sel: Vec<u64> = mine.iter().filter(|x| x.1 == d).map(|x| x.0).collect();
                        // a slip: one packet named a second time, other packets in between (or right next to it)
                        if sel.len() >= 3 {
                            if sc.cfg.salt % 2 == 0 {
                                sel.push(sel[0]);
                            } else {
                                sel.insert(1, sel[0]);
                            }
                        }
                        self.step(sc.recover(&sc.admin, Some(true), Some(sel), r_arg));
                    }
                }
            }
        }
        self.step(sc.recover(&u[0], None, None, None)); // nothing left: must be refused
        self.relay_all("ack");
        // dust at a rate below one (a slash booked by the admin): a one-unit request whose expected amount
        // rounds to zero is still a request; its batch is submitted, waits, is completed by a delivery, is paid
        if self.obs.state_ok && self.obs.l > 10 && self.sc.w.bal(&u[2], &sc.t) > 1 {
            let (n, l, r) = (self.obs.n, self.obs.l, self.obs.rewards);
            self.step(sc.breaker(&sc.admin));
            self.step(sc.resume((l / 3).max(1), l, r));
            self.step(sc.unstake(&u[2], 1));
            let due = self.obs.pending.next_time_s;
            let now = self.sc.w.now_s();
            if due > now {
                self.step(Op::Advance { secs: due - now });
            }
            self.step(sc.submit(&u[0]));
            let b = self.obs.batches.iter().filter(|b| b.status == "submitted").last().cloned();
            if let Some(b) = b {
                self.step(sc.withdraw(&u[2], b.id)); // too early: must be refused
                let now = self.sc.w.now_s();
                if b.next_time_s > now {
                    self.step(Op::Advance { secs: b.next_time_s - now });
                }
                let staker = self.obs.staker();
                self.step(Op::NativeMint { addr: staker.clone(), amount: 2 });
                self.step(sc.deliver(&staker, &ch, b.id, b.expected + 2));
                self.step(sc.withdraw(&u[2], b.id));
                self.step(sc.withdraw(&u[2], b.id)); // second time: must be refused
            }
            self.step(sc.breaker(&sc.admin));
            self.step(sc.resume(n, self.obs.l, r));
            self.model.count("dust_scenario");
        }
        // reward counter at the edge of its range (an accounting correction by the admin): a payment
        // is then either refused or counted in full. Not in C16 runs: totals above 10^27 are outside
        // that property's bounds and the refusal is an arithmetic abort.
        if self.model.on("C11") && !self.model.on("C16") && self.obs.l > 0 && self.obs.state_ok {
            let (n, l) = (self.obs.n, self.obs.l);
            // a reward far beyond 64 bits at a 1:1 pool of the same size: fee, restake and counters are all
            // representable, the product feeRate x reward is not (only in runs that watch nothing but the fees)
            if self.model.enabled.len() == 1 {
                let huge = 100_000_000_000_000_000_000_000_000_000_000_000u128; // 10^35
                let r0 = self.obs.rewards;
                self.step(sc.resume(huge, huge, r0));
                self.step(Op::NativeMint { addr: coll.clone(), amount: huge });
                self.step(sc.reward(&coll, &ch, huge));
                self.relay_all("ack");
                let r1 = self.obs.rewards;
                self.step(sc.resume(n, l, r1));
                self.model.count("huge_reward");
            }
            self.step(sc.resume(n, l, u128::MAX - 50 - (sc.cfg.salt as u128 % 7)));
            self.step(Op::NativeMint { addr: coll.clone(), amount: 1000 });
            self.step(sc.reward(&coll, &ch, 40));
            self.step(sc.reward(&coll, &ch, 960));
            self.step(sc.resume(n + 36, l, 77));
            self.relay_all("ack");
            self.model.count("reward_counter_edge");
        }
        self.model.count("exit_scenario");
    }

    pub fn relay_last(&mut self, oc: &str) {
        let p = self.sc.w.packets.values().filter(|p| p.status == PStatus::InFlight).last().map(|p| (p.channel.clone(), p.seq));
        if let Some((c, s)) = p {
            self.step(Op::Relay { channel: c, seq: s, outcome: oc.into() });
        }
    }
    pub fn relay_all(&mut self, oc: &str) {
        let ps: Vec<(String, u64, u64)> = self.sc.w.packets.values().filter(|p| p.status == PStatus::InFlight).map(|p| (p.channel.clone(), p.seq, p.timeout_ns)).collect();
        if oc == "timeout_or_err" {
            let latest = ps.iter().map(|p| p.2).max().unwrap_or(0);
            if latest >= self.sc.w.now_ns {
                let secs = (latest - self.sc.w.now_ns) / 1_000_000_000 + 1;
                self.step(Op::Advance { secs });
            }
        }
        for (i, (c, s, _)) in ps.into_iter().enumerate() {
            let o = if oc == "timeout_or_err" { if i % 2 == 0 { "timeout" } else { "err" } } else { oc };
            self.step(Op::Relay { channel: c, seq: s, outcome: o.into() });
        }
    }

    pub fn random_steps(&mut self, gen: &mut Gen, n: usize) {
        for _ in 0..n {
            let ops = gen.next(&self.sc, &self.obs, &self.model);
            self.steps(ops);
        }
    }

    pub fn replay_json(&self, seed: u64, upto: usize) -> Value {
        let vio: Vec<Value> = self.viols.iter().map(|v| json!({"property": v.prop, "what": v.what})).collect();
        json!({
            "engine": "hist",
            "seed": seed,
            "chain": format!("{:?}", ChainKind::built()),
            "cfg": serde_json::to_value(&self.sc.cfg).unwrap(),
            "props": self.model.enabled.iter().collect::<Vec<_>>(),
            "trace": serde_json::to_value(&self.trace[..upto.min(self.trace.len())]).unwrap(),
            "violations": vio,
        })
    }
}

pub fn profile_for(prop: &str, rng: &mut Rng) -> Profile {
    let mut p = profile_for_inner(prop, rng);
    // every third history works with 18-decimals-sized amounts whatever its profile
    if rng.chance(1, 3) {
        p.max_amount = 1_000_000_000_000_000_000_000_000;
    }
    p
}

fn profile_for_inner(prop: &str, rng: &mut Rng) -> Profile {
    match prop {
        "C07" => Profile::ibc_heavy(),
        "C05" | "C06" | "C17" => Profile::batches(),
        "C11" | "C15" => {
            if rng.chance(1, 2) {
                Profile::rewards()
            } else {
                Profile::balanced()
            }
        }
        "C02" | "C01" | "C03" => match rng.below(3) {
            0 => Profile::ibc_heavy(),
            1 => Profile::batches(),
            _ => Profile::balanced(),
        },
        _ => Profile::balanced(),
    }
}

/// Re-execute a recorded trace with the recorded monitors; returns the violations seen.
pub fn replay(v: &Value) -> Result<Vec<Viol>, String> {
    let cfg: Cfg = serde_json::from_value(v.get("cfg").cloned().ok_or("no cfg")?).map_err(|e| e.to_string())?;
    let props: Vec<String> = serde_json::from_value(v.get("props").cloned().ok_or("no props")?).map_err(|e| e.to_string())?;
    let props: Vec<&'static str> = props.iter().map(|p| crate::intern(p)).collect();
    let trace: Vec<Op> = serde_json::from_value(v.get("trace").cloned().ok_or("no trace")?).map_err(|e| e.to_string())?;
    let mut run = match Run::new(&cfg, &props) {
        Ok(r) => r,
        Err(r) => {
            if !r.panics.is_empty() {
                return Ok(r.panics.iter().map(|p| Viol { prop: "C16", what: format!("panic in {p} during instantiate") }).collect());
            }
            return Ok(vec![]);
        }
    };
    for op in trace {
        run.step(op);
    }
    Ok(run.viols)
}
