#!/usr/bin/env python3
"""Schema extractor / driver generator for the protobuf bindings (C20).

  gen.py schema <repo> <out.json>            parse packages/initia-proto (lib.rs module tree + generated files)
  gen.py refschema <osmosis-std src> <out>   parse the independently generated reference bindings
  gen.py shared <schema.json> <ref.json> <out>   messages present in both, deep field-identical closure
  gen.py driver <repo> <shared.json> <out.rs>    emit the Rust driver for the CURRENT tree

Only names, module paths and #[prost(..)] attributes are parsed; field types are left to rustc's
type inference in the generated driver.
"""
import json, os, re, sys, glob

ATTR = re.compile(r'#\[prost\((.*?)\)\]', re.S)


def strip_comments(txt):
    out = []
    for l in txt.splitlines():
        s = l.strip()
        if s.startswith("//"):
            continue
        out.append(l)
    return "\n".join(out)


def parse_attr(a):
    """-> dict(kind, label, tag/tags, extra)"""
    a = " ".join(a.split())
    d = {"raw": a}
    m = re.search(r'tags = "([^"]+)"', a)
    if m:
        d["tags"] = [int(x) for x in m.group(1).replace(" ", "").split(",")]
    m = re.search(r'tag = "(\d+)"', a)
    if m:
        d["tag"] = int(m.group(1))
    m = re.search(r'oneof = "([^"]+)"', a)
    if m:
        d["kind"] = "oneof"
        d["oneof"] = m.group(1)
        return d
    m = re.search(r'map = "([^"]+)"', a)
    if m:
        d["kind"] = "map"
        d["map"] = m.group(1).replace(" ", "")
        d["label"] = "map"
        return d
    m = re.search(r'enumeration = "([^"]+)"', a)
    first = a.split(",")[0].strip()
    if m:
        d["kind"] = "enumeration"
    else:
        d["kind"] = first.split("=")[0].strip()  # string, message, uint64, bytes, bool, ...
    if re.search(r'(^|, )repeated(,|$)', a):
        d["label"] = "repeated"
    elif re.search(r'(^|, )optional(,|$)', a):
        d["label"] = "optional"
    else:
        d["label"] = "singular"
    if "packed = \"false\"" in a:
        d["packed"] = False
    return d


WIRE = {"string": 2, "bytes": 2, "message": 2, "map": 2,
        "uint64": 0, "int64": 0, "uint32": 0, "int32": 0, "bool": 0, "enumeration": 0, "sint32": 0, "sint64": 0,
        "fixed64": 1, "sfixed64": 1, "double": 1, "fixed32": 5, "sfixed32": 5, "float": 5}
NUMERIC = {k for k, v in WIRE.items() if v != 2}


def parse_file(txt, modpath, package):
    """Return (messages, oneofs, enumerations). Keys are rust paths relative to the crate root."""
    txt = strip_comments(txt)
    lines = txt.splitlines()
    msgs, oneofs, enums = {}, {}, {}
    stack = []  # nested module names inside this file
    i = 0
    n = len(lines)
    pending_derive = ""
    skip_depth = None
    depth = 0
    while i < n:
        l = lines[i]
        s = l.strip()
        if skip_depth is not None:
            depth += l.count("{") - l.count("}")
            if depth <= skip_depth:
                skip_depth = None
            i += 1
            continue
        if s.startswith("#[cfg(feature"):
            # grpc client/server module: skip it entirely
            j = i
            while j < n and not lines[j].strip().startswith("pub mod"):
                j += 1
            # skip the module body
            d0 = depth
            k = j
            depth += lines[k].count("{") - lines[k].count("}")
            skip_depth = d0
            i = k + 1
            if depth <= d0:
                skip_depth = None
            continue
        if s.startswith("#[derive("):
            # may span lines
            buf = s
            while ")]" not in buf:
                i += 1
                buf += lines[i].strip()
            pending_derive = buf
            i += 1
            continue
        m = re.match(r'pub mod (\S+) \{', s)
        if m:
            stack.append(m.group(1))
            depth += 1
            i += 1
            continue
        m = re.match(r'pub struct (\w+)\s*(\{\s*\})?\s*$', s) or re.match(r'pub struct (\w+) \{', s)
        if m and "::prost::Message" in pending_derive:
            name = m.group(1)
            fields = []
            empty = s.endswith("{}") or s.endswith("{ }")
            body = []
            if not empty:
                i += 1
                while lines[i].strip() != "}":
                    body.append(lines[i])
                    i += 1
            btxt = "\n".join(body)
            # fields: attr followed by `pub name: type,`
            pos = 0
            for am in ATTR.finditer(btxt):
                rest = btxt[am.end():]
                fm = re.search(r'pub (r#)?(\w+)\s*:\s*(.*?),\s*(?=\n\s*(#\[|pub |$)|$)', rest, re.S)
                if not fm:
                    raise SystemExit(f"cannot parse field after attr in {modpath}::{name}: {rest[:120]}")
                a = parse_attr(am.group(1))
                a["name"] = (fm.group(1) or "") + fm.group(2)
                a["type"] = " ".join(fm.group(3).split())
                fields.append(a)
            key = "::".join([modpath] + stack + [name])
            msgs[key] = {"package": package, "nested": "::".join(stack + [name]), "fields": fields}
            pending_derive = ""
            i += 1
            continue
        m = re.match(r'pub enum (\w+) \{', s)
        if m:
            name = m.group(1)
            body = []
            i += 1
            while lines[i].strip() != "}":
                body.append(lines[i])
                i += 1
            btxt = "\n".join(body)
            key = "::".join([modpath] + stack + [name])
            if "::prost::Oneof" in pending_derive:
                vs = []
                for am in ATTR.finditer(btxt):
                    rest = btxt[am.end():]
                    vm = re.search(r'(\w+)\((.*?)\),', rest, re.S)
                    a = parse_attr(am.group(1))
                    a["name"] = vm.group(1)
                    a["type"] = " ".join(vm.group(2).split())
                    vs.append(a)
                oneofs[key] = {"variants": vs}
            elif "::prost::Enumeration" in pending_derive:
                vals = re.findall(r'(\w+) = (-?\d+),', btxt)
                enums[key] = {v: int(k) for v, k in vals}
            pending_derive = ""
            i += 1
            continue
        if s == "}" and stack and l.startswith("    " * (len(stack) - 1) + "}") and not l.startswith("    " * len(stack)):
            stack.pop()
            depth -= 1
            i += 1
            continue
        if s.startswith("impl ") or s.startswith("pub fn") or s.startswith("fn "):
            # impl blocks of enumerations (as_str_name ...): skip balanced
            d = l.count("{") - l.count("}")
            i += 1
            while d > 0 and i < n:
                d += lines[i].count("{") - lines[i].count("}")
                i += 1
            continue
        i += 1
    return msgs, oneofs, enums


def parse_librs(path):
    """module tree -> list of (rust module path, included file)"""
    out = []
    stack = []
    for l in open(path):
        s = l.strip()
        if s.startswith("//"):
            continue
        m = re.match(r'pub mod (\S+) \{', s)
        if m:
            stack.append(m.group(1))
            continue
        m = re.search(r'include!\("proto/([^"]+)"\)', s)
        if m:
            out.append(("::".join(stack), m.group(1)))
            continue
        if s == "}" and stack:
            stack.pop()
    return out


def cmd_schema(repo, out):
    base = f"{repo}/packages/initia-proto/src"
    mods = parse_librs(f"{base}/lib.rs")
    schema = {"messages": {}, "oneofs": {}, "enumerations": {}, "modules": {}}
    for modpath, fname in mods:
        package = fname[:-3]
        txt = open(f"{base}/proto/{fname}").read()
        m, o, e = parse_file(txt, modpath, package)
        # every derive of a prost trait outside the grpc modules must have been picked up
        want_m = len(re.findall(r'::prost::Message\b', strip_comments(txt)))
        want_o = len(re.findall(r'::prost::Oneof\b', strip_comments(txt)))
        want_e = len(re.findall(r'::prost::Enumeration\b', strip_comments(txt)))
        if (want_m, want_o, want_e) != (len(m), len(o), len(e)):
            raise SystemExit(f"gen.py: {fname}: found {len(m)}/{len(o)}/{len(e)} messages/oneofs/enumerations but the file derives {want_m}/{want_o}/{want_e}")
        schema["messages"].update(m)
        schema["oneofs"].update(o)
        schema["enumerations"].update(e)
        schema["modules"][modpath] = fname
    # registered type urls
    urls = {}
    t = open(f"{base}/type_urls.rs").read()
    t = strip_comments(t)
    for m in re.finditer(r'impl\s+TypeUrl\s+for\s+([\w:#]+)\s*\{[^}]*?const\s+TYPE_URL\s*:\s*&\'static\s+str\s*=\s*"([^"]*)"', t, re.S):
        urls[m.group(1)] = m.group(2)
    n_impl = len(re.findall(r'impl\s+TypeUrl\s+for', t))
    if n_impl != len(urls):
        raise SystemExit(f"gen.py: {n_impl} TypeUrl impls in type_urls.rs but only {len(urls)} parsed")
    schema["type_urls"] = urls
    json.dump(schema, open(out, "w"), indent=0, sort_keys=True)
    print(f"schema: {len(schema['messages'])} messages, {sum(len(v['fields']) for v in schema['messages'].values())} fields, {len(schema['oneofs'])} oneofs, {len(schema['enumerations'])} enumerations, {len(urls)} type urls")


def cmd_refschema(src, out):
    schema = {"messages": {}, "oneofs": {}, "enumerations": {}, "type_urls": {}}
    root = f"{src}/src/types"
    for f in sorted(glob.glob(f"{root}/**/*.rs", recursive=True)):
        if f.endswith("mod.rs"):
            continue
        rel = os.path.relpath(f, root)[:-3]
        parts = rel.split(os.sep)
        modpath = "::".join(parts)
        package = ".".join(parts)
        txt = open(f).read()
        m, o, e = parse_file(txt, modpath, package)
        schema["messages"].update(m)
        schema["oneofs"].update(o)
        schema["enumerations"].update(e)
        # type urls of the reference
        for mm in re.finditer(r'#\[proto_message\(type_url = "([^"]+)"\)\]\s*pub struct (\w+)', strip_comments(txt)):
            schema["type_urls"][modpath + "::" + mm.group(2)] = mm.group(1)
    json.dump(schema, open(out, "w"), indent=0, sort_keys=True)
    print(f"reference schema: {len(schema['messages'])} messages")


def norm_mod(p):
    return p.replace("r#", "")


def resolve(cur_mod, tpath):
    """resolve a (possibly relative) rust type path against the module it appears in"""
    tpath = tpath.strip()
    if tpath.startswith("::") or tpath.startswith("tendermint_proto") or tpath.startswith("crate::"):
        return tpath
    parts = tpath.split("::")
    mod = cur_mod.split("::")
    while parts and parts[0] == "super":
        parts.pop(0)
        mod = mod[:-1]
    return "::".join(mod + parts)


def inner_type(t):
    t = t.strip()
    for w in ("::core::option::Option<", "::prost::alloc::vec::Vec<", "::prost::alloc::boxed::Box<"):
        while t.startswith(w) and t.endswith(">"):
            t = t[len(w):-1].strip()
    return t


def field_sig(f):
    return (f.get("tag"), f["kind"], f.get("label"), f.get("map"), tuple(f.get("tags", [])))


def cmd_shared(schema_p, ref_p, out):
    s = json.load(open(schema_p))
    r = json.load(open(ref_p))
    refkeys = {norm_mod(k): k for k in r["messages"]}
    cand = {}
    for k, m in s["messages"].items():
        nk = norm_mod(k)
        if nk in refkeys:
            cand[k] = refkeys[nk]
    # own-field identity
    def own_identical(k):
        a = s["messages"][k]["fields"]
        b = r["messages"][cand[k]]["fields"]
        return sorted(map(field_sig, a), key=str) == sorted(map(field_sig, b), key=str) and [f["name"] for f in a] == [f["name"] for f in b]
    ident = {k for k in cand if own_identical(k)}
    # oneofs must match too
    def oneof_ok(k):
        for f in s["messages"][k]["fields"]:
            if f["kind"] == "oneof":
                mod = "::".join(k.split("::")[:-1])
                ok_ = resolve(mod, f["oneof"])
                a = s["oneofs"].get(ok_)
                b = r["oneofs"].get(norm_mod(ok_)) or r["oneofs"].get(ok_)
                if not a or not b or sorted(map(field_sig, a["variants"]), key=str) != sorted(map(field_sig, b["variants"]), key=str):
                    return False
        return True
    ident = {k for k in ident if oneof_ok(k)}
    # deep closure over message-typed fields
    def msg_deps(k):
        mod = "::".join(k.split("::")[:-1])
        deps = []
        m = s["messages"][k]
        fl = list(m["fields"])
        for f in m["fields"]:
            if f["kind"] == "oneof":
                o = s["oneofs"].get(resolve(mod, f["oneof"]))
                if o:
                    omod = "::".join(resolve(mod, f["oneof"]).split("::")[:-1])
                    for v in o["variants"]:
                        if v["kind"] == "message":
                            deps.append(resolve(omod, inner_type(v["type"])))
        for f in fl:
            if f["kind"] == "message":
                deps.append(resolve(mod, inner_type(f["type"])))
            if f["kind"] == "map" and f["map"].endswith(",message"):
                t = f["type"]
                vt = t[t.index(",") + 1:].rstrip(">").strip()
                deps.append(resolve(mod, vt))
        return deps
    changed = True
    deep = set(ident)
    while changed:
        changed = False
        for k in list(deep):
            for d in msg_deps(k):
                if d.startswith("::prost_types") or d.startswith("tendermint_proto") or d.startswith("::tendermint"):
                    continue  # leaves: generated as defaults / wire-compatible shims
                if d not in deep:
                    deep.discard(k)
                    changed = True
                    break
    res = {"shared": {k: cand[k] for k in sorted(cand)}, "deep_identical": sorted(deep), "own_identical": sorted(ident),
           "ref_type_urls": {k: r["type_urls"].get(cand[k]) for k in sorted(cand) if r["type_urls"].get(cand[k])}}
    json.dump(res, open(out, "w"), indent=0, sort_keys=True)
    print(f"shared by name: {len(cand)}, own-field identical: {len(ident)}, deep identical (differential applies): {len(deep)}")


def rust_path(k):
    return "initia_proto::" + k


def ref_path(k):
    return "osmosis_std::types::" + k


def cmd_driver(repo, shared_p, out):
    tmp = out + ".schema.json"
    cmd_schema(repo, tmp)
    s = json.load(open(tmp))
    sh = json.load(open(shared_p)) if shared_p and os.path.exists(shared_p) else {"deep_identical": [], "shared": {}, "ref_type_urls": {}}
    deep = set(sh["deep_identical"])
    o = []
    o.append("// GENERATED by protomon/gen.py from the current tree. Do not edit.")
    o.append("#![allow(clippy::all, deprecated, unused)]")
    o.append("use crate::rt::*;")
    o.append("use crate::ref_or_none;")
    def is_foreign(t):
        it = inner_type(t)
        if it.startswith("::prost_types::"):
            return it not in ("::prost_types::Any", "::prost_types::Timestamp", "::prost_types::Duration")
        return it.startswith("tendermint_proto") or it.startswith("::tendermint")
    for k in sorted(s["messages"]):
        m = s["messages"][k]
        mod = "::".join(k.split("::")[:-1])
        o.append(f"impl Gen for {rust_path(k)} {{ fn gen(r: &mut Rng, m: Mode, d: u32) -> Self {{ Self {{")
        for f in m["fields"]:
            t = f["type"]
            if is_foreign(t):
                if t.startswith("::core::option::Option<"):
                    o.append(f"    {f['name']}: fopt(m, d),")
                elif t.startswith("::prost::alloc::vec::Vec<"):
                    o.append(f"    {f['name']}: fvec(m, d),")
                else:
                    o.append(f"    {f['name']}: Default::default(),")
            elif f["kind"] == "map":
                o.append(f"    {f['name']}: gen_map(r, m, d),")
            else:
                nm = f['name'].replace('r#', '')
                o.append(f"    {f['name']}: Gen::gen_named(r, m, d + 1, \"{nm}\"),")
        o.append("} } }")
    for k in sorted(s["oneofs"]):
        vs = s["oneofs"][k]["variants"]
        o.append(f"impl Gen for {rust_path(k)} {{ fn gen(r: &mut Rng, m: Mode, d: u32) -> Self {{ match pick_variant(r, m, {len(vs)}) {{")
        for i, v in enumerate(vs):
            arm = f"{i}" if i < len(vs) - 1 else "_"
            if is_foreign(v["type"]):
                o.append(f"    {arm} => Self::{v['name']}(Default::default()),")
            else:
                o.append(f"    {arm} => Self::{v['name']}(Gen::gen(r, m, d + 1)),")
        o.append("} } }")
    o.append("pub fn all_types() -> Vec<TypeEntry> { vec![")
    for k in sorted(s["messages"]):
        ref = "None"
        if k in deep:
            ref = f"Some(diff::<{rust_path(k)}, {ref_path(sh['shared'][k])}>)"
        o.append(f"    TypeEntry {{ path: \"{k}\", run: check::<{rust_path(k)}>, recode: recode::<{rust_path(k)}>, diff: ref_or_none!({ref}) }},")
    o.append("] }")
    # enumerations: (value -> protobuf name) tables observed at run time
    o.append("pub fn all_enums() -> Vec<(&'static str, Vec<(i32, &'static str)>)> { vec![")
    for k in sorted(s["enumerations"]):
        o.append(f"    (\"{k}\", (-2..=300).filter_map(|i| <{rust_path(k)} as TryFrom<i32>>::try_from(i).ok().map(|e| (i, e.as_str_name()))).collect()),")
    o.append("] }")
    # registered type urls
    o.append("pub fn all_urls() -> Vec<UrlEntry> { vec![")
    for tp, url in sorted(s["type_urls"].items()):
        full = "initia_proto::" + tp
        o.append(f"    UrlEntry {{ path: \"{tp}\", run: check_url::<{full}> }},")
    o.append("] }")
    open(out, "w").write("\n".join(o) + "\n")
    print(f"driver: {len(s['messages'])} types, {len(deep)} with reference differential, {len(s['type_urls'])} urls")


if __name__ == "__main__":
    a = sys.argv[1:]
    if a[0] == "schema":
        cmd_schema(a[1], a[2])
    elif a[0] == "refschema":
        cmd_refschema(a[1], a[2])
    elif a[0] == "shared":
        cmd_shared(a[1], a[2], a[3])
    elif a[0] == "driver":
        cmd_driver(a[1], a[2], a[3])
    else:
        print(__doc__)
        sys.exit(2)
