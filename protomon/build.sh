#!/bin/bash
# build.sh [tag]  -- regenerates the driver from $MW_REPO (default /repo) and builds protomon offline
set -e
V="$(cd "$(dirname "$0")/.." && pwd)"
REPO=${MW_REPO:-/repo}
TAG=proto${1:-}
P=$V/target/$TAG/proj
mkdir -p $P/src
for f in rt.rs main.rs; do cmp -s $V/protomon/src/$f $P/src/$f || cp $V/protomon/src/$f $P/src/$f; done
python3 $V/protomon/gen.py driver $REPO $V/protomon/baseline/shared.json $P/src/generated.rs.new
if ! cmp -s $P/src/generated.rs.new $P/src/generated.rs; then mv $P/src/generated.rs.new $P/src/generated.rs; else rm $P/src/generated.rs.new; fi
sed -e "s#@REPO@#$REPO#g" -e "s#@SRC@#$P/src#g" $V/protomon/Cargo.toml.in > $P/Cargo.toml.new
if ! cmp -s $P/Cargo.toml.new $P/Cargo.toml; then mv $P/Cargo.toml.new $P/Cargo.toml; else rm $P/Cargo.toml.new; fi
[ -f $P/Cargo.lock ] || cp $REPO/Cargo.lock $P/Cargo.lock
export CARGO_NET_OFFLINE=true
cd $P
cargo build --release --offline --target-dir $V/target/$TAG/build 2>&1
