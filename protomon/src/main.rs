//! protomon: C20 driver. `generated.rs` is produced by gen.py from the current tree.
#![allow(dead_code, unused)]
mod rt;
#[path = "generated.rs"]
mod generated;

use rt::*;
use serde_json::{json, Value};
use std::collections::{BTreeMap, BTreeSet};

const WIRE: &[(&str, u8)] = &[
    ("string", 2), ("bytes", 2), ("message", 2), ("map", 2), ("uint64", 0), ("int64", 0), ("uint32", 0), ("int32", 0), ("bool", 0),
    ("enumeration", 0), ("sint32", 0), ("sint64", 0), ("fixed64", 1), ("sfixed64", 1), ("double", 1), ("fixed32", 5), ("sfixed32", 5), ("float", 5),
];

fn wt(kind: &str) -> u8 {
    WIRE.iter().find(|(k, _)| *k == kind).map(|x| x.1).unwrap_or(9)
}

fn resolve(cur_mod: &str, tpath: &str) -> String {
    let mut parts: Vec<&str> = tpath.trim().split("::").collect();
    let mut m: Vec<&str> = cur_mod.split("::").collect();
    while !parts.is_empty() && parts[0] == "super" {
        parts.remove(0);
        m.pop();
    }
    m.extend(parts);
    m.join("::")
}

/// what the pinned schema predicts for a fully populated instance with oneof selector k
fn expected_shape(schema: &Value, path: &str, k: u32) -> Option<Vec<(u32, u8, u32)>> {
    let m = schema.get("messages")?.get(path)?;
    let modp = path.rsplitn(2, "::").nth(1).unwrap_or("");
    let mut out: BTreeMap<(u32, u8), u32> = BTreeMap::new();
    for f in m.get("fields")?.as_array()? {
        let kind = f.get("kind")?.as_str()?;
        if kind == "oneof" {
            let okey = resolve(modp, f.get("oneof")?.as_str()?);
            let vs = schema.get("oneofs")?.get(&okey)?.get("variants")?.as_array()?;
            if vs.is_empty() {
                continue;
            }
            let v = &vs[k as usize % vs.len()];
            let tag = v.get("tag")?.as_u64()? as u32;
            *out.entry((tag, wt(v.get("kind")?.as_str()?))).or_insert(0) += 1;
            continue;
        }
        let tag = f.get("tag")?.as_u64()? as u32;
        let label = f.get("label").and_then(|x| x.as_str()).unwrap_or("singular");
        let w = wt(kind);
        let (wire, count) = match label {
            "repeated" => {
                if w != 2 && f.get("packed").and_then(|x| x.as_bool()) != Some(false) {
                    (2u8, 1u32) // packed numeric
                } else {
                    (w, 2)
                }
            }
            "map" => (2, 1),
            _ => (w, 1),
        };
        *out.entry((tag, wire)).or_insert(0) += count;
    }
    Some(out.into_iter().map(|((n, w), c)| (n, w, c)).collect())
}

fn main() {
    let argv: Vec<String> = std::env::args().collect();
    let get = |k: &str, d: &str| -> String { argv.iter().position(|a| a == k).and_then(|i| argv.get(i + 1)).cloned().unwrap_or_else(|| d.to_string()) };
    let seed: u64 = get("--seed", "1").parse().unwrap_or(1);
    let shard: usize = get("--shard", "0").parse().unwrap_or(0);
    let nshards: usize = get("--nshards", "1").parse().unwrap_or(1);
    let random: u32 = get("--random", "6").parse().unwrap_or(6);
    let hostile: u32 = get("--hostile", "6").parse().unwrap_or(6);
    let sample: usize = get("--sample", "0").parse().unwrap_or(0);
    let only = get("--only", "");
    let pinned_p = get("--pinned", "");
    let shared_p = get("--shared", "");
    let out_p = get("--out", "");
    std::panic::set_hook(Box::new(|_| {}));
    let pinned: Value = if pinned_p.is_empty() { Value::Null } else { serde_json::from_str(&std::fs::read_to_string(&pinned_p).expect("pinned schema")).expect("pinned json") };
    let shared: Value = if shared_p.is_empty() { Value::Null } else { serde_json::from_str(&std::fs::read_to_string(&shared_p).expect("shared")).expect("shared json") };
    let cfg = Cfg { random, full_variants: 4, hostile };
    let types = generated::all_types();
    let mut evals = 0u64;
    let mut diff_evals = 0u64;
    let mut violations: Vec<Value> = vec![];
    let mut unpinned: Vec<String> = vec![];
    let mut checked = 0u64;
    let mut diffed = 0u64;
    let mut hostile_ok = 0u64;
    let mut hostile_err = 0u64;
    let mut samples: Vec<Value> = vec![];
    let mut probes = 0u64;
    let mut nested_probes = 0u64;
    let mut wide_probes = 0u64;
    let mut shapes_distinct: BTreeSet<String> = BTreeSet::new();
    let current: BTreeSet<&str> = types.iter().map(|t| t.path).collect();
    for (i, t) in types.iter().enumerate() {
        if !only.is_empty() {
            if t.path != only {
                continue;
            }
        } else if sample > 0 {
            // a spread sample (Miri lane)
            if (i * 7919) % types.len() >= sample {
                continue;
            }
        } else if i % nshards != shard {
            continue;
        }
        let mut r = Rng::new(seed ^ (i as u64).wrapping_mul(0x9E3779B97F4A7C15));
        let res = (t.run)(&mut r, &cfg);
        checked += 1;
        evals += res.evals;
        hostile_ok += res.hostile_ok;
        hostile_err += res.hostile_err;
        for f in &res.failures {
            violations.push(json!({"type": t.path, "what": format!("{}: {f}", t.path), "sig": format!("{}: {}", t.path, f.split(':').next().unwrap_or(""))}));
        }
        if !pinned.is_null() {
            if pinned.get("messages").and_then(|m| m.get(t.path)).is_none() {
                unpinned.push(t.path.to_string());
            } else {
                for (k, s) in res.shapes.iter().enumerate() {
                    match expected_shape(&pinned, t.path, k as u32) {
                        Some(e) => {
                            if &e != s {
                                violations.push(json!({"type": t.path, "what": format!("{}: the fully populated instance (oneof selector {k}) encodes as (field number, wire type, occurrences) {s:?}; its protobuf definition gives {e:?}", t.path), "sig": format!("{}: wire shape", t.path)}));
                                break;
                            }
                        }
                        None => {
                            violations.push(json!({"type": t.path, "what": format!("{}: pinned definition cannot be evaluated", t.path), "sig": "pinned"}));
                            break;
                        }
                    }
                    shapes_distinct.insert(format!("{}|{k}|{s:?}", t.path));
                }
            }
        }
        // value-level probes against the pinned definition (which field sits under which number; map entry
        // layout; string vs bytes)
        if !pinned.is_null() {
            if let Some(pm) = pinned.get("messages").and_then(|m| m.get(t.path)) {
                for f in pm.get("fields").and_then(|x| x.as_array()).cloned().unwrap_or_default() {
                    let kind = f.get("kind").and_then(|x| x.as_str()).unwrap_or("");
                    let label = f.get("label").and_then(|x| x.as_str()).unwrap_or("singular");
                    let Some(tag) = f.get("tag").and_then(|x| x.as_u64()).map(|x| x as u32) else { continue };
                    let name = f.get("name").and_then(|x| x.as_str()).unwrap_or("").trim_start_matches("r#").to_string();
                    let ftype = f.get("type").and_then(|x| x.as_str()).unwrap_or("");
                    if ftype.contains("tendermint") || (ftype.contains("::prost_types::") && !["Any", "Timestamp", "Duration"].iter().any(|k| ftype.ends_with(&format!("::prost_types::{k}>")) || ftype.ends_with(&format!("::prost_types::{k}")))) {
                        continue;
                    }
                    let occ = field_payloads(&res.named_bytes, tag);
                    let mut bad: Option<String> = None;
                    match kind {
                        "string" | "bytes" => {
                            let want = if label == "repeated" { 2 } else { 1 };
                            if occ.len() != want || occ.iter().any(|o| o.0 != 2 || o.2 != name.as_bytes()) {
                                bad = Some(format!("field number {tag} should carry the {kind} field '{name}' but the name-valued instance has {:?} there", occ.iter().map(|o| String::from_utf8_lossy(&o.2).to_string()).collect::<Vec<_>>()));
                            } else if label != "repeated" && !occ.is_empty() {
                                // string must validate UTF-8, bytes must not
                                let (_, _, _, off, len) = occ[0].clone();
                                let mut patched = res.named_bytes.clone();
                                for b in patched[off..off + len].iter_mut() {
                                    *b = 0xff;
                                }
                                match ((t.recode)(&patched), kind) {
                                    (Ok(_), "string") => bad = Some(format!("string field '{name}' (number {tag}) accepts a payload that is not UTF-8")),
                                    (Err(e), "bytes") => bad = Some(format!("bytes field '{name}' (number {tag}) rejects an arbitrary payload: {e}")),
                                    (Ok(b2), "bytes") if b2 != patched => bad = Some(format!("bytes field '{name}' (number {tag}) does not re-encode an arbitrary payload identically")),
                                    _ => {}
                                }
                            }
                        }
                        "uint64" | "int64" | "uint32" | "int32" | "enumeration" => {
                            let want_v = name_value(&name);
                            if label == "repeated" {
                                let packed = f.get("packed").and_then(|x| x.as_bool()) != Some(false);
                                let ok = if packed {
                                    occ.len() == 1 && occ[0].0 == 2 && {
                                        let mut enc = vec![];
                                        for _ in 0..2 {
                                            let mut v = want_v;
                                            loop {
                                                let b = (v & 0x7f) as u8;
                                                v >>= 7;
                                                if v == 0 { enc.push(b); break; }
                                                enc.push(b | 0x80);
                                            }
                                        }
                                        occ[0].2 == enc
                                    }
                                } else {
                                    occ.len() == 2 && occ.iter().all(|o| o.0 == 0 && o.1 == want_v)
                                };
                                if !ok {
                                    bad = Some(format!("field number {tag} should carry the repeated {kind} field '{name}' (name-derived value {want_v}); found {:?}", occ.iter().map(|o| (o.0, o.1, o.2.clone())).collect::<Vec<_>>()));
                                }
                            } else if occ.len() != 1 || occ[0].0 != 0 || occ[0].1 != want_v {
                                bad = Some(format!("field number {tag} should carry the {kind} field '{name}' (name-derived value {want_v}); found {:?}", occ.iter().map(|o| (o.0, o.1)).collect::<Vec<_>>()));
                            } else if kind == "uint64" || kind == "int64" {
                                // a 64-bit field keeps all 64 bits: conforming bytes with a value beyond 32 bits decode
                                // and re-encode unchanged
                                let (_, _, _, off, len) = occ[0].clone();
                                let mut enc = vec![];
                                let mut v: u64 = (1u64 << 40) + 5 + (want_v & 0xff);
                                loop {
                                    let b = (v & 0x7f) as u8;
                                    v >>= 7;
                                    if v == 0 { enc.push(b); break; }
                                    enc.push(b | 0x80);
                                }
                                let mut patched = res.named_bytes[..off].to_vec();
                                patched.extend_from_slice(&enc);
                                patched.extend_from_slice(&res.named_bytes[off + len..]);
                                match (t.recode)(&patched) {
                                    Ok(b2) if b2 == patched => {}
                                    Ok(_) => bad = Some(format!("{kind} field '{name}' (number {tag}) does not keep a value beyond 32 bits: conforming bytes re-encode differently")),
                                    Err(e) => bad = Some(format!("{kind} field '{name}' (number {tag}) rejects a value beyond 32 bits: {e}")),
                                }
                                wide_probes += 1;
                            }
                        }
                        "message" => {
                            // the nested message under this number must be the pinned nested TYPE: every field the
                            // pinned definition of that type has must show up inside the payload (and nothing else)
                            let inner = ftype.rsplit('<').next().unwrap_or("").split('>').next().unwrap_or("").trim();
                            if !inner.starts_with("::") && !inner.is_empty() {
                                let modp = t.path.rsplitn(2, "::").nth(1).unwrap_or("");
                                let key = resolve(modp, inner);
                                if pinned.get("messages").and_then(|m| m.get(&key)).is_some() {
                                    if let Some(exp) = expected_shape(&pinned, &key, 0) {
                                        let want: BTreeSet<(u32, u8)> = exp.iter().map(|x| (x.0, x.1)).collect();
                                        let occ = field_payloads(&res.full_bytes, tag);
                                        if occ.is_empty() {
                                            bad = Some(format!("message field '{name}' (number {tag}) absent from the fully populated instance"));
                                        }
                                        for o in &occ {
                                            let got: BTreeSet<(u32, u8)> = wire_fields(&o.2).unwrap_or_default().into_iter().collect();
                                            if got != want {
                                                bad = Some(format!("message field '{name}' (number {tag}) should hold a {key}, whose fully populated instance has (field number, wire type) {want:?}; the payload has {got:?}"));
                                                break;
                                            }
                                        }
                                        nested_probes += 1;
                                    }
                                }
                            }
                        }
                        "map" => {
                            let kv: Vec<&str> = f.get("map").and_then(|x| x.as_str()).unwrap_or(",").split(',').collect();
                            let occ = field_payloads(&res.full_bytes, tag);
                            if let Some(first) = occ.first() {
                                let inner = wire_fields(&first.2).unwrap_or_default();
                                let want = vec![(1u32, wt(kv[0])), (2u32, wt(kv.get(1).copied().unwrap_or("")))];
                                if inner != want {
                                    bad = Some(format!("map field '{name}' (number {tag}): entry encodes as {inner:?}, its definition map<{}> gives {want:?}", kv.join(", ")));
                                }
                            } else {
                                bad = Some(format!("map field '{name}' (number {tag}) absent from the fully populated instance"));
                            }
                        }
                        _ => {}
                    }
                    if let Some(b) = bad {
                        violations.push(json!({"type": t.path, "what": format!("{}: {b}", t.path), "sig": format!("{}: field {name}", t.path)}));
                    }
                    probes += 1;
                }
            }
        }
        if let Some(d) = t.diff {
            let mut r2 = Rng::new(seed ^ (i as u64).wrapping_mul(0xD1B54A32D192ED03));
            let dres = d(&mut r2, &cfg);
            diffed += 1;
            diff_evals += dres.evals;
            for f in &dres.failures {
                violations.push(json!({"type": t.path, "what": format!("{}: {f}", t.path), "sig": format!("{}: reference differential", t.path)}));
            }
        }
        if samples.len() < 3 && !res.sample.is_empty() {
            samples.push(json!({"type": t.path, "fully_populated_hex_prefix": res.sample, "shape": res.shapes.first()}));
        }
    }
    // pinned types that no longer exist at their path
    let mut missing = 0;
    if !pinned.is_null() && only.is_empty() && sample == 0 && shard == 0 {
        if let Some(m) = pinned.get("messages").and_then(|m| m.as_object()) {
            for k in m.keys() {
                if !current.contains(k.as_str()) {
                    missing += 1;
                    violations.push(json!({"type": k, "what": format!("{k}: message type of the pinned definition no longer exists at this module path"), "sig": format!("{k}: missing")}));
                }
            }
        }
    }
    // type urls (shard 0 only: 31 entries)
    let mut urls_checked = 0;
    if shard == 0 && only.is_empty() && sample == 0 {
        let all = generated::all_urls();
        let names: Vec<&'static str> = vec![];
        // first pass: collect the registered URLs
        let mut urls: Vec<&'static str> = vec![];
        let firsts: Vec<(String, Vec<String>)> = all.iter().map(|u| (u.run)(&names)).collect();
        let leaked: Vec<&'static str> = firsts.iter().map(|(u, _)| Box::leak(u.clone().into_boxed_str()) as &'static str).collect();
        urls.extend(leaked.iter());
        for u in &all {
            let (url, fails) = (u.run)(&urls);
            urls_checked += 1;
            for f in fails {
                violations.push(json!({"type": u.path, "what": format!("{}: {f}", u.path), "sig": format!("{}: type url", u.path)}));
            }
            // shared types: the independently generated binding's URL
            if let Some(ru) = shared.get("ref_type_urls").and_then(|m| m.get(u.path)).and_then(|x| x.as_str()) {
                if ru != url {
                    violations.push(json!({"type": u.path, "what": format!("{}: TYPE_URL \"{url}\" differs from the reference binding's \"{ru}\"", u.path), "sig": format!("{}: type url", u.path)}));
                }
            }
        }
    }
    // enumerations: numbering and names as observed at run time vs the pinned table
    let mut enums_checked = 0;
    let enums_p = get("--enums", "");
    if get("--dump-enums", "") == "1" {
        let m: serde_json::Map<String, Value> = generated::all_enums().into_iter().map(|(k, v)| (k.to_string(), json!(v.into_iter().map(|(i, n)| json!([i, n])).collect::<Vec<_>>()))).collect();
        println!("{}", Value::Object(m));
        return;
    }
    if shard == 0 && only.is_empty() && sample == 0 && !enums_p.is_empty() {
        let pinned_e: Value = serde_json::from_str(&std::fs::read_to_string(&enums_p).expect("pinned enums")).expect("enums json");
        let cur = generated::all_enums();
        for (k, table) in &cur {
            enums_checked += 1;
            let now = json!(table.iter().map(|(i, n)| json!([i, n])).collect::<Vec<_>>());
            match pinned_e.get(*k) {
                Some(p) if *p == now => {}
                Some(p) => violations.push(json!({"type": k, "what": format!("{k}: enumeration values / names are {now}, the protobuf definition gives {p}"), "sig": format!("{k}: enumeration")})),
                None => unpinned.push(k.to_string()),
            }
        }
        if let Some(m) = pinned_e.as_object() {
            for k in m.keys() {
                if !cur.iter().any(|(c, _)| c == k) {
                    violations.push(json!({"type": k, "what": format!("{k}: enumeration of the pinned definition no longer exists at this module path"), "sig": format!("{k}: missing")}));
                }
            }
        }
    }
    let doc = json!({
        "enumerations_checked": enums_checked,
        "field_probes": probes,
        "nested_probes": nested_probes,
        "wide_probes": wide_probes,
        "types_checked": checked, "evals": evals, "types_diffed": diffed, "diff_evals": diff_evals, "urls_checked": urls_checked,
        "hostile_decoded": hostile_ok, "hostile_rejected": hostile_err, "unpinned": unpinned, "missing": missing,
        "violations": violations, "samples": samples, "distinct_shapes": shapes_distinct.len(),
    });
    if out_p.is_empty() {
        println!("{}", serde_json::to_string_pretty(&doc).unwrap());
    } else {
        std::fs::write(&out_p, doc.to_string()).expect("write result");
    }
}
