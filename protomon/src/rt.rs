//! Runtime of the generated driver: instance generators, round-trip / wire-shape / differential
//! checks, own protobuf wire reader.
use prost::Message;
use std::collections::HashMap;

#[derive(Clone)]
pub struct Rng {
    s: [u64; 4],
}
impl Rng {
    pub fn new(seed: u64) -> Self {
        let mut z = seed.wrapping_add(0x9e3779b97f4a7c15);
        let mut s = [0u64; 4];
        for x in s.iter_mut() {
            z = z.wrapping_add(0x9e3779b97f4a7c15);
            let mut y = z;
            y = (y ^ (y >> 30)).wrapping_mul(0xbf58476d1ce4e5b9);
            y = (y ^ (y >> 27)).wrapping_mul(0x94d049bb133111eb);
            *x = y ^ (y >> 31);
        }
        Rng { s }
    }
    pub fn next(&mut self) -> u64 {
        let r = self.s[1].wrapping_mul(5).rotate_left(7).wrapping_mul(9);
        let t = self.s[1] << 17;
        self.s[2] ^= self.s[0];
        self.s[3] ^= self.s[1];
        self.s[1] ^= self.s[2];
        self.s[0] ^= self.s[3];
        self.s[2] ^= t;
        self.s[3] = self.s[3].rotate_left(45);
        r
    }
    pub fn below(&mut self, n: u64) -> u64 {
        if n == 0 { 0 } else { self.next() % n }
    }
}

#[derive(Clone, Copy, PartialEq)]
pub enum Mode {
    /// every field present with fixed cardinalities; the argument selects the oneof variant
    Full(u32),
    Random,
    /// like Full(0), but every top-level scalar carries a value derived from its field NAME, so that the
    /// checker (which knows the pinned name <-> number mapping) can tell which field ended up under which tag
    Named,
    /// every scalar zero / empty, nothing optional or repeated present: proto3 writes nothing at all
    Zero,
}

pub fn name_value(name: &str) -> u64 {
    let mut h: u64 = 0xcbf29ce484222325;
    for b in name.bytes() {
        h ^= b as u64;
        h = h.wrapping_mul(0x100000001b3);
    }
    2 + h % 1_000_000
}

pub trait Gen: Sized {
    fn gen(r: &mut Rng, m: Mode, d: u32) -> Self;
    /// generation of the field called `name` (only scalars at the top level look at the name)
    fn gen_named(r: &mut Rng, m: Mode, d: u32, _name: &str) -> Self {
        Self::gen(r, m, d)
    }
}

const MAXD: u32 = 4;

impl Gen for String {
    fn gen_named(r: &mut Rng, m: Mode, d: u32, name: &str) -> Self {
        if m == Mode::Named && d <= 1 {
            return name.to_string();
        }
        Self::gen(r, m, d)
    }
    fn gen(r: &mut Rng, m: Mode, _d: u32) -> Self {
        let n = match m {
            Mode::Full(_) | Mode::Named => 1 + r.below(6),
            Mode::Random => r.below(9),
            Mode::Zero => 0,
        };
        (0..n).map(|_| match r.below(20) { 0 => '\u{00e9}', 1 => '/', 2 => '\u{4e2d}', x => (b'a' + x as u8) as char }).collect()
    }
}
impl Gen for Vec<u8> {
    fn gen_named(r: &mut Rng, m: Mode, d: u32, name: &str) -> Self {
        if m == Mode::Named && d <= 1 {
            return name.as_bytes().to_vec();
        }
        Self::gen(r, m, d)
    }
    fn gen(r: &mut Rng, m: Mode, _d: u32) -> Self {
        let n = match m {
            Mode::Full(_) | Mode::Named => 1 + r.below(6),
            Mode::Random => r.below(9),
            Mode::Zero => 0,
        };
        (0..n).map(|_| r.next() as u8).collect()
    }
}
impl Gen for bool {
    fn gen(r: &mut Rng, m: Mode, _d: u32) -> Self {
        match m {
            Mode::Full(_) | Mode::Named => true,
            Mode::Random => r.below(2) == 1,
            Mode::Zero => false,
        }
    }
}
macro_rules! int_gen {
    ($t:ty) => {
        impl Gen for $t {
            fn gen_named(r: &mut Rng, m: Mode, d: u32, name: &str) -> Self {
                if m == Mode::Named && d <= 1 {
                    return name_value(name) as $t;
                }
                Self::gen(r, m, d)
            }
            fn gen(r: &mut Rng, m: Mode, _d: u32) -> Self {
                let v: $t = match r.below(6) {
                    0 => 1,
                    1 => <$t>::MAX,
                    2 => <$t>::MIN,
                    3 => (r.next() >> 57) as $t,
                    _ => r.next() as $t,
                };
                match m {
                    Mode::Full(_) | Mode::Named => if v == 0 { 7 } else { v },
                    Mode::Random => if r.below(5) == 0 { 0 } else { v },
                    Mode::Zero => 0,
                }
            }
        }
    };
}
int_gen!(i32);
int_gen!(i64);
int_gen!(u32);
int_gen!(u64);

impl<T: Gen> Gen for Option<T> {
    fn gen_named(r: &mut Rng, m: Mode, d: u32, name: &str) -> Self {
        if m == Mode::Named && d < MAXD {
            return Some(T::gen_named(r, m, d, name));
        }
        Self::gen(r, m, d)
    }
    fn gen(r: &mut Rng, m: Mode, d: u32) -> Self {
        if d >= MAXD {
            return None;
        }
        match m {
            Mode::Full(_) | Mode::Named => Some(T::gen(r, m, d)),
            Mode::Random => if r.below(2) == 0 { None } else { Some(T::gen(r, m, d)) },
            Mode::Zero => None,
        }
    }
}
impl<T: Gen> Gen for Box<T> {
    fn gen(r: &mut Rng, m: Mode, d: u32) -> Self {
        Box::new(T::gen(r, m, d))
    }
}
/// repeated fields; scalars inside are generated one level deeper so that depth limits bite
impl<T: Gen> Gen for Vec<T> {
    fn gen_named(r: &mut Rng, m: Mode, d: u32, name: &str) -> Self {
        if m == Mode::Named && d <= 1 {
            return vec![T::gen_named(r, m, d, name), T::gen_named(r, m, d, name)];
        }
        Self::gen(r, m, d)
    }
    fn gen(r: &mut Rng, m: Mode, d: u32) -> Self {
        let n = match m {
            Mode::Full(_) | Mode::Named => if d <= 1 { 2 } else if d < MAXD { 1 } else { 0 },
            Mode::Random => if d >= MAXD { 0 } else { r.below(4) },
            Mode::Zero => 0,
        };
        (0..n).map(|_| T::gen(r, m, d)).collect()
    }
}
// Vec<u8> is bytes, not a repeated field: resolved by the more specific impl above being a
// distinct type (Vec<u8> implements Gen directly; Vec<T: Gen> would overlap for u8, so u8 does
// not implement Gen).

pub fn gen_map<V: Gen>(r: &mut Rng, m: Mode, d: u32) -> HashMap<String, V> {
    // prost writes map entries in hash-iteration order, which legitimately differs between two
    // equal maps: at most one entry so that byte-equality checks stay sound
    let mut h = HashMap::new();
    let n = match m {
        Mode::Full(_) | Mode::Named => if d < MAXD { 1 } else { 0 },
        Mode::Random => if d >= MAXD { 0 } else { r.below(2) },
        Mode::Zero => 0,
    };
    for _ in 0..n {
        h.insert(String::gen(r, Mode::Full(0), d), V::gen(r, m, d + 1));
    }
    h
}

pub fn fopt<T: Default>(m: Mode, d: u32) -> Option<T> {
    match m {
        Mode::Full(_) | Mode::Named if d < MAXD => Some(T::default()),
        _ => None,
    }
}
pub fn fvec<T: Default>(m: Mode, d: u32) -> Vec<T> {
    match m {
        Mode::Full(_) | Mode::Named if d == 0 => vec![T::default(), T::default()],
        Mode::Full(_) | Mode::Named if d < MAXD => vec![T::default()],
        _ => vec![],
    }
}
pub fn pick_variant(r: &mut Rng, m: Mode, n: usize) -> usize {
    match m {
        Mode::Full(k) => k as usize % n.max(1),
        Mode::Named | Mode::Zero => 0,
        Mode::Random => r.below(n as u64) as usize,
    }
}

impl Gen for prost_types::Any {
    fn gen(r: &mut Rng, m: Mode, d: u32) -> Self {
        prost_types::Any { type_url: String::gen(r, m, d), value: Vec::<u8>::gen(r, m, d) }
    }
}
impl Gen for prost_types::Timestamp {
    fn gen(r: &mut Rng, m: Mode, d: u32) -> Self {
        prost_types::Timestamp { seconds: i64::gen(r, m, d), nanos: i32::gen(r, m, d) }
    }
}
impl Gen for prost_types::Duration {
    fn gen(r: &mut Rng, m: Mode, d: u32) -> Self {
        prost_types::Duration { seconds: i64::gen(r, m, d), nanos: i32::gen(r, m, d) }
    }
}

// ------------------------------------------------------------------ own wire reader
fn varint(b: &[u8], pos: &mut usize) -> Option<u64> {
    let mut v = 0u64;
    let mut shift = 0;
    loop {
        let x = *b.get(*pos)?;
        *pos += 1;
        if shift >= 64 {
            return None;
        }
        v |= ((x & 0x7f) as u64) << shift;
        if x & 0x80 == 0 {
            return Some(v);
        }
        shift += 7;
    }
}

/// top-level (field number, wire type) occurrences, in order
pub fn wire_fields(b: &[u8]) -> Option<Vec<(u32, u8)>> {
    let mut pos = 0;
    let mut out = vec![];
    while pos < b.len() {
        let key = varint(b, &mut pos)?;
        let num = (key >> 3) as u32;
        let wt = (key & 7) as u8;
        match wt {
            0 => {
                varint(b, &mut pos)?;
            }
            1 => pos += 8,
            2 => {
                let l = varint(b, &mut pos)? as usize;
                pos = pos.checked_add(l)?;
            }
            5 => pos += 4,
            _ => return None,
        }
        if pos > b.len() || num == 0 {
            return None;
        }
        out.push((num, wt));
    }
    Some(out)
}

/// payloads of all top-level occurrences of field `num`: (wire type, varint/fixed value, bytes, offset of payload, length)
pub fn field_payloads(b: &[u8], num: u32) -> Vec<(u8, u64, Vec<u8>, usize, usize)> {
    let mut pos = 0;
    let mut out = vec![];
    while pos < b.len() {
        let Some(key) = varint(b, &mut pos) else { break };
        let n = (key >> 3) as u32;
        let wt = (key & 7) as u8;
        let (val, bytes, off, len) = match wt {
            0 => {
                let o = pos;
                let Some(v) = varint(b, &mut pos) else { break };
                (v, vec![], o, pos - o)
            }
            1 => {
                if pos + 8 > b.len() { break }
                let mut a = [0u8; 8];
                a.copy_from_slice(&b[pos..pos + 8]);
                pos += 8;
                (u64::from_le_bytes(a), vec![], 0, 0)
            }
            2 => {
                let Some(l) = varint(b, &mut pos) else { break };
                let l = l as usize;
                if pos + l > b.len() { break }
                let v = b[pos..pos + l].to_vec();
                let off = pos;
                pos += l;
                (0, v, off, l)
            }
            5 => {
                if pos + 4 > b.len() { break }
                let mut a = [0u8; 4];
                a.copy_from_slice(&b[pos..pos + 4]);
                pos += 4;
                (u32::from_le_bytes(a) as u64, vec![], 0, 0)
            }
            _ => break,
        };
        if n == num {
            out.push((wt, val, bytes, off, len));
        }
    }
    out
}

pub fn shape_of(b: &[u8]) -> Option<Vec<(u32, u8, u32)>> {
    let f = wire_fields(b)?;
    let mut m: std::collections::BTreeMap<(u32, u8), u32> = Default::default();
    for x in f {
        *m.entry(x).or_insert(0) += 1;
    }
    Some(m.into_iter().map(|((n, w), c)| (n, w, c)).collect())
}

// ------------------------------------------------------------------ checks
#[derive(Default)]
pub struct TypeResult {
    pub evals: u64,
    pub failures: Vec<String>,
    /// wire shape of the fully populated instance for oneof selector k
    pub shapes: Vec<Vec<(u32, u8, u32)>>,
    pub hostile_ok: u64,
    pub hostile_err: u64,
    pub sample: String,
    /// encodings of the fully populated instance (selector 0) and of the name-valued instance
    pub full_bytes: Vec<u8>,
    pub named_bytes: Vec<u8>,
}

pub struct Cfg {
    pub random: u32,
    pub full_variants: u32,
    pub hostile: u32,
}

pub struct TypeEntry {
    pub path: &'static str,
    pub run: fn(&mut Rng, &Cfg) -> TypeResult,
    /// decode arbitrary bytes with this type and re-encode them (Err = decode refused, Err("panic") = panicked)
    pub recode: fn(&[u8]) -> Result<Vec<u8>, String>,
    pub diff: Option<fn(&mut Rng, &Cfg) -> TypeResult>,
}

pub fn recode<T: Message + Default>(b: &[u8]) -> Result<Vec<u8>, String> {
    match std::panic::catch_unwind(|| T::decode(b).map(|v| v.encode_to_vec())) {
        Ok(Ok(v)) => Ok(v),
        Ok(Err(e)) => Err(e.to_string()),
        Err(_) => Err("panic".into()),
    }
}
pub struct UrlEntry {
    pub path: &'static str,
    pub run: fn(&[&'static str]) -> (String, Vec<String>),
}

#[cfg(feature = "reference")]
#[macro_export]
macro_rules! ref_or_none {
    ($e:expr) => {
        $e
    };
}
#[cfg(not(feature = "reference"))]
#[macro_export]
macro_rules! ref_or_none {
    ($e:expr) => {
        None
    };
}

fn hexs(b: &[u8]) -> String {
    b.iter().take(48).map(|x| format!("{x:02x}")).collect()
}

pub fn check<T: Message + Default + PartialEq + Gen + Clone + std::fmt::Debug>(r: &mut Rng, c: &Cfg) -> TypeResult {
    let mut res = TypeResult::default();
    let mut one = |v: &T, res: &mut TypeResult, what: &str| -> Vec<u8> {
        res.evals += 1;
        let bytes = v.encode_to_vec();
        if bytes.len() != v.encoded_len() {
            res.failures.push(format!("{what}: encoded_len {} != bytes written {}", v.encoded_len(), bytes.len()));
        }
        match T::decode(&bytes[..]) {
            Ok(v2) => {
                if &v2 != v {
                    res.failures.push(format!("{what}: decode(encode(x)) != x for bytes {}", hexs(&bytes)));
                }
                let b2 = v2.encode_to_vec();
                if b2 != bytes {
                    res.failures.push(format!("{what}: re-encoding differs: {} vs {}", hexs(&bytes), hexs(&b2)));
                }
            }
            Err(e) => res.failures.push(format!("{what}: own encoding does not decode: {e} ({})", hexs(&bytes))),
        }
        bytes
    };
    for k in 0..c.full_variants {
        let v = T::gen(r, Mode::Full(k), 0);
        let bytes = one(&v, &mut res, "fully populated instance");
        match shape_of(&bytes) {
            Some(s) => res.shapes.push(s),
            None => res.failures.push(format!("own wire reader cannot parse the encoding {}", hexs(&bytes))),
        }
        if k == 0 {
            res.sample = hexs(&bytes);
            res.full_bytes = bytes.clone();
        }
        // hostile decode: truncations and bit flips must yield Err or a value, never a panic
        for h in 0..c.hostile {
            let mut b = bytes.clone();
            if b.is_empty() {
                b.push(r.next() as u8);
            }
            match h % 3 {
                0 => b.truncate(r.below(b.len() as u64) as usize),
                1 => {
                    let i = r.below(b.len() as u64) as usize;
                    b[i] ^= 1 << r.below(8);
                }
                _ => {
                    let i = r.below(b.len() as u64) as usize;
                    b[i] = r.next() as u8;
                    b.push(r.next() as u8);
                }
            }
            let out = std::panic::catch_unwind(|| T::decode(&b[..]));
            match out {
                Ok(Ok(v2)) => {
                    res.hostile_ok += 1;
                    // whatever was accepted must itself round-trip
                    let b2 = v2.encode_to_vec();
                    match T::decode(&b2[..]) {
                        Ok(v3) if v3 == v2 => {}
                        _ => res.failures.push(format!("value decoded from hostile bytes {} does not round-trip", hexs(&b))),
                    }
                }
                Ok(Err(_)) => res.hostile_err += 1,
                Err(_) => res.failures.push(format!("decode panicked on hostile bytes {}", hexs(&b))),
            }
        }
    }
    {
        let v = T::gen(r, Mode::Named, 0);
        res.named_bytes = one(&v, &mut res, "name-valued instance");
    }
    for _ in 0..c.random {
        let v = T::gen(r, Mode::Random, 0);
        one(&v, &mut res, "random instance");
    }
    // the default value encodes to nothing and decodes from nothing
    let d = T::default();
    if !d.encode_to_vec().is_empty() {
        res.failures.push("default value has a non-empty encoding".into());
    }
    // proto3 has no explicit defaults: the instance whose every scalar is zero / empty and in which nothing
    // optional or repeated is present encodes to nothing, and nothing decodes to exactly that instance
    {
        res.evals += 1;
        let z = T::gen(r, Mode::Zero, 0);
        let zb = z.encode_to_vec();
        if !zb.is_empty() {
            res.failures.push(format!("zero instance: the all-zero instance encodes as {} instead of nothing", hexs(&zb)));
        }
        match T::decode(&[][..]) {
            Ok(v) if v == z => {}
            Ok(v) => res.failures.push(format!("zero instance: the empty message decodes to {:?}, not to the all-zero instance", v).chars().take(300).collect()),
            Err(e) => res.failures.push(format!("zero instance: the empty message does not decode: {e}")),
        }
    }
    res
}

/// equal values yield byte-identical encodings in the independently generated reference binding
pub fn diff<T: Message + Default + Gen, R: Message + Default>(r: &mut Rng, c: &Cfg) -> TypeResult {
    let mut res = TypeResult::default();
    let mut one = |v: &T, res: &mut TypeResult, what: &str| {
        res.evals += 1;
        let bytes = v.encode_to_vec();
        match R::decode(&bytes[..]) {
            Ok(rv) => {
                let b2 = rv.encode_to_vec();
                if b2 != bytes {
                    res.failures.push(format!("{what}: reference binding re-encodes {} as {}", hexs(&bytes), hexs(&b2)));
                }
            }
            Err(e) => res.failures.push(format!("{what}: reference binding cannot decode {}: {e}", hexs(&bytes))),
        }
    };
    for k in 0..c.full_variants {
        let v = T::gen(r, Mode::Full(k), 0);
        one(&v, &mut res, "fully populated instance");
    }
    for _ in 0..c.random {
        let v = T::gen(r, Mode::Random, 0);
        one(&v, &mut res, "random instance");
    }
    res
}

/// fully-qualified protobuf name from the Rust type path (module path mirrors the package)
pub fn fqn_of(type_name: &str) -> String {
    let t = type_name.strip_prefix("initia_proto::").unwrap_or(type_name);
    let parts: Vec<&str> = t.split("::").collect();
    let mut out: Vec<String> = vec![];
    for (i, p) in parts.iter().enumerate() {
        let p = p.strip_prefix("r#").unwrap_or(p);
        if i + 1 == parts.len() {
            out.push(p.to_string());
        } else {
            out.push(p.to_string());
        }
    }
    out.join(".")
}

pub fn check_url<T: Message + Default + PartialEq + Gen + Clone + initia_proto::traits::TypeUrl>(others: &[&'static str]) -> (String, Vec<String>) {
    use initia_proto::traits::MessageExt;
    let mut f = vec![];
    let url = T::TYPE_URL.to_string();
    let want = format!("/{}", fqn_of(std::any::type_name::<T>()));
    if url != want {
        f.push(format!("TYPE_URL is \"{url}\", the message's fully-qualified name gives \"{want}\""));
    }
    let mut r = Rng::new(0x5eed ^ url.len() as u64);
    for k in 0..3 {
        let v = T::gen(&mut r, if k == 0 { Mode::Full(0) } else { Mode::Random }, 0);
        match v.to_any() {
            Ok(any) => {
                if any.type_url != url {
                    f.push(format!("to_any packs type_url {}", any.type_url));
                }
                match T::from_any(&any) {
                    Ok(v2) if v2 == v => {}
                    Ok(_) => f.push("from_any(to_any(x)) != x".into()),
                    Err(e) => f.push(format!("from_any rejects its own Any: {e}")),
                }
                // mismatched URLs must be rejected
                let mut bad: Vec<String> = others.iter().filter(|o| **o != url).map(|o| o.to_string()).collect();
                bad.push(String::new());
                bad.push(url.trim_start_matches('/').to_string());
                bad.push(format!("{url} "));
                bad.push(format!("{url}Response"));
                bad.push(format!("{url}x"));
                bad.push(url[..url.len() - 1].to_string());
                bad.push(format!("type.googleapis.com{url}"));
                bad.push(url.to_uppercase());
                for b in bad {
                    if b == url {
                        continue;
                    }
                    let a2 = initia_proto::Any { type_url: b.clone(), value: any.value.clone() };
                    if T::from_any(&a2).is_ok() {
                        f.push(format!("from_any accepted the mismatched type URL \"{b}\""));
                    }
                }
            }
            Err(e) => f.push(format!("to_any failed: {e}")),
        }
    }
    (url, f)
}
